//go:build race

package verifsimrt

import (
	"runtime"
	"unsafe"
)

// RaceBuild reports whether the binary was built with the race detector.
const RaceBuild = true

// RaceOff / RaceOn bracket synchronisation that belongs to the simulator, not
// to the code under test (token hand-over, the runtime's own mutex, the locks
// and wake-up channels of the simulated network): the race detector ignores
// it, so the simulator adds no happens-before edge between goroutines of the
// code under test. This is what package sync does around its own internals.
func RaceOff() { runtime.RaceDisable() }
func RaceOn()  { runtime.RaceEnable() }

func raceAcquire(p unsafe.Pointer)      { runtime.RaceAcquire(p) }
func raceRelease(p unsafe.Pointer)      { runtime.RaceRelease(p) }
func raceReleaseMerge(p unsafe.Pointer) { runtime.RaceReleaseMerge(p) }
