package verifsimrt

// gtab maps goroutine ids to their G. It is an open-addressing table over
// plain slices rather than a Go map because the runtime annotates map
// operations for the race detector on behalf of their caller: in the
// controlled race mode every Yield would otherwise produce a harness-only
// race report.
type gtab struct {
	keys []uint64 // 0 = empty, ^0 = deleted
	vals []*G
	used int
}

const gtabDeleted = ^uint64(0)

func (t *gtab) reset() {
	if len(t.keys) != 1024 {
		t.keys = make([]uint64, 1024)
		t.vals = make([]*G, 1024)
	} else {
		for i := range t.keys {
			t.keys[i] = 0
			t.vals[i] = nil
		}
	}
	t.used = 0
}

func (t *gtab) slot(id uint64) int {
	return int((id * 0x9e3779b97f4a7c15) >> 32 & uint64(len(t.keys)-1))
}

func (t *gtab) get(id uint64) *G {
	if len(t.keys) == 0 {
		return nil
	}
	for i := t.slot(id); ; i = (i + 1) & (len(t.keys) - 1) {
		switch t.keys[i] {
		case id:
			return t.vals[i]
		case 0:
			return nil
		}
	}
}

func (t *gtab) put(id uint64, g *G) {
	if len(t.keys) == 0 {
		t.reset()
	}
	if (t.used+1)*4 > len(t.keys)*3 {
		old := *t
		t.keys = make([]uint64, 2*len(old.keys))
		t.vals = make([]*G, 2*len(old.keys))
		t.used = 0
		for i, k := range old.keys {
			if k != 0 && k != gtabDeleted {
				t.put(k, old.vals[i])
			}
		}
	}
	for i := t.slot(id); ; i = (i + 1) & (len(t.keys) - 1) {
		if k := t.keys[i]; k == id {
			t.vals[i] = g
			return
		} else if k == 0 {
			t.keys[i], t.vals[i] = id, g
			t.used++
			return
		}
	}
}

func (t *gtab) del(id uint64) {
	if len(t.keys) == 0 {
		return
	}
	for i := t.slot(id); ; i = (i + 1) & (len(t.keys) - 1) {
		switch t.keys[i] {
		case id:
			t.keys[i], t.vals[i] = gtabDeleted, nil
			return
		case 0:
			return
		}
	}
}
