//go:build !race

package verifsimrt

import "unsafe"

// RaceBuild reports whether the binary was built with the race detector.
const RaceBuild = false

func RaceOff() {}
func RaceOn()  {}

func raceAcquire(p unsafe.Pointer)      {}
func raceRelease(p unsafe.Pointer)      {}
func raceReleaseMerge(p unsafe.Pointer) {}
