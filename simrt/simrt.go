// Package verifsimrt is the goroutine-side runtime of the deterministic
// simulator (DESIGN §2.3). It exists only in the build overlay, where it is
// mapped to the import path github.com/tsuna/gohbase/verifsimrt so that both
// the instrumented gohbase packages and the harness can import it.
//
// Discipline: between two scheduler decisions exactly one managed goroutine
// runs ("holds the token"). A managed goroutine gives the token back by
// parking in Yield/Woke/Begin, by blocking durably in a real operation
// (channel, select, timer), or by exiting. The scheduler (the main goroutine
// of the synctest bubble) learns that from rtBubbleWait, then picks the next
// parked goroutine. A goroutine that is woken by somebody else's action does
// nothing but park (Woke), so the state after rtBubbleWait does not depend on
// the order in which the Go scheduler ran the woken goroutines.
package verifsimrt

import (
	"fmt"
	"sort"
	"sync"
	"sync/atomic"
	"time"
	_ "unsafe"
)

// freeMode is set for the whole run in free (-race) mode: every scheduling
// point returns at once without touching shared state, so that the simulator
// adds no happens-before edges between the goroutines of the code under test.
var freeMode atomic.Bool

// Implemented in the runtime overlay (tools/rtoverlay).

//go:linkname rtConfigure
func rtConfigure(on bool, seed uint64)

//go:linkname rtSetStep
func rtSetStep(step uint64)

//go:linkname rtGoid
func rtGoid() uint64

//go:linkname rtInBubble
func rtInBubble() bool

//go:linkname rtBubbleRun
func rtBubbleRun(f func())

//go:linkname rtBubbleWait
func rtBubbleWait()

// G is a managed goroutine.
type G struct {
	Seq       int    // deterministic registration index
	ID        string // deterministic path id: parent id + "." + ordinal
	Label     string // site of the go statement, or harness label
	goid      uint64
	wake      chan struct{}
	parked    bool
	done      bool
	begun     bool
	Site      string // last scheduling point reached
	held      int    // cooperative locks held
	waitLock  *lockState
	waitWrite bool
	nchild    int
	Steps     int // number of times released
}

func (g *G) String() string { return fmt.Sprintf("g%d[%s %s @%s]", g.Seq, g.ID, g.Label, g.Site) }

// Parked reports whether g is parked at a scheduling point (releasable).
func (g *G) Parked() bool { return g.parked }

// Done reports whether g has exited.
func (g *G) Done() bool { return g.done }

// Ticket is handed from a go statement's parent to the child.
type Ticket struct{ g *G }

type viol struct {
	Kind string
	Msg  string
}

var (
	mu      sync.Mutex
	active  bool // controlled mode: Yield parks
	byGoid  gtab
	all     []*G
	current *G // token holder
	root    *G
	viols   []viol
	// YieldHook, if set, is called (without locks) at every Yield of a managed
	// goroutine before it parks; used for probes.
	siteHits = map[string]int{}
	idle     chan struct{} // park notifications for the sleeping scheduler
)

// Run executes main inside a fresh synctest bubble with the simulator's
// randomness hooks seeded by seed. controlled selects token scheduling; with
// controlled=false every scheduling point is a no-op (free mode for -race).
// It returns the recovered panic value of the bubble, if any (for example the
// end-of-bubble deadlock panic when goroutines are left blocked).
func Run(seed uint64, controlled bool, main func()) (panicked any) {
	freeMode.Store(!controlled)
	lockMu()
	byGoid.reset()
	all = make([]*G, 0, 8192) // no growth on the goroutines of the code under test
	current = nil
	viols = nil
	siteHits = map[string]int{}
	lockWaits = 0
	resetPools(seed)
	unlockMu()
	defer func() {
		lockMu()
		active = false
		unlockMu()
		rtConfigure(false, 0)
		if r := recover(); r != nil {
			panicked = r
		}
	}()
	rtBubbleRun(func() {
		lockMu()
		root = &G{Seq: 0, ID: "0", Label: "sched", goid: rtGoid(), begun: true}
		idle = make(chan struct{}, 1)
		all = append(all, root)
		byGoid.put(root.goid, root)
		active = controlled
		unlockMu()
		rtConfigure(true, seed)
		main()
	})
	return nil
}

// lockMu / unlockMu guard the runtime's own state; invisible to the race
// detector (see RaceOff).
func lockMu() {
	RaceOff()
	mu.Lock()
	RaceOn()
}

func unlockMu() {
	RaceOff()
	mu.Unlock()
	RaceOn()
}

// waitWake blocks on a wake-up channel of the simulator.
func waitWake(ch chan struct{}) {
	RaceOff()
	<-ch
	RaceOn()
}

func cur() *G {
	id := rtGoid()
	lockMu()
	g := byGoid.get(id)
	unlockMu()
	return g
}

// Spawn is called by the parent at a go statement.
func Spawn(site string) *Ticket {
	if freeMode.Load() {
		return nil
	}
	id := rtGoid()
	lockMu()
	defer unlockMu()
	p := byGoid.get(id)
	if p == nil {
		// unmanaged parent (free mode after teardown, library goroutine)
		return nil
	}
	p.nchild++
	g := &G{Seq: len(all), ID: fmt.Sprintf("%s.%d", p.ID, p.nchild), Label: site, wake: make(chan struct{})}
	all = append(all, g)
	return &Ticket{g}
}

// Begin is the first statement of a spawned goroutine; it parks until the
// scheduler picks the goroutine for the first time.
func Begin(tk *Ticket) {
	if tk == nil {
		return
	}
	g := tk.g
	lockMu()
	g.goid = rtGoid()
	byGoid.put(g.goid, g)
	g.begun = true
	g.Site = "begin"
	if !active {
		unlockMu()
		return
	}
	g.parked = true
	unlockMu()
	waitWake(g.wake)
}

// End is deferred by every spawned goroutine.
func End() {
	if freeMode.Load() {
		return
	}
	id := rtGoid()
	lockMu()
	if g := byGoid.get(id); g != nil {
		g.done = true
		g.parked = false
		byGoid.del(id)
		if current == g {
			current = nil
		}
	}
	unlockMu()
}

// Go starts a managed goroutine on behalf of the harness.
func Go(label string, f func()) {
	tk := Spawn(label)
	go func() {
		Begin(tk)
		defer End()
		f()
	}()
}

func park(g *G, site string) {
	g.Site = site
	g.parked = true
	if !RaceBuild {
		siteHits[site]++
	}
	ch := idle
	unlockMu()
	RaceOff()
	select {
	case ch <- struct{}{}:
	default:
	}
	<-g.wake
	RaceOn()
}

// Yield is a scheduling point placed before an operation.
func Yield(site string) {
	if freeMode.Load() {
		return
	}
	id := rtGoid()
	lockMu()
	g := byGoid.get(id)
	if g == nil || g == root {
		unlockMu()
		return
	}
	if !active {
		g.Site = site
		unlockMu()
		return
	}
	park(g, site)
}

// Woke is placed after an operation that may have blocked. If the goroutine
// lost the token while blocked it parks; if it still holds the token (the
// operation did not block) it continues.
func Woke(site string) {
	if freeMode.Load() {
		return
	}
	id := rtGoid()
	lockMu()
	g := byGoid.get(id)
	if g == nil || g == root || !active {
		unlockMu()
		return
	}
	if current == g {
		unlockMu()
		return
	}
	park(g, site+"!")
}

// Holding reports whether the goroutine holds a cooperative lock.
func (g *G) Holding() bool { return g.held > 0 }

// Send replaces a plain channel send statement. A send on a full buffered
// result channel is the signature of a second completion (C03): it is
// recorded and dropped instead of wedging the run.
func Send[T any](site string, check bool, ch chan T, v T) {
	if freeMode.Load() {
		ch <- v
		return
	}
	Yield(site)
	if check && cap(ch) > 0 && len(ch) == cap(ch) {
		Report("full-result-chan", site)
		return
	}
	ch <- v
	Woke(site)
}

// Report records a violation observed inside the code under test.
func Report(kind, msg string) {
	lockMu()
	viols = append(viols, viol{kind, msg})
	unlockMu()
}

// ---- scheduler side (called only by the bubble's main goroutine) ----

// Wait blocks until every other goroutine in the bubble is durably blocked.
func Wait() {
	rtBubbleWait()
	lockMu()
	current = nil
	unlockMu()
}

// Sleep lets fake time pass: it blocks the scheduler until some managed
// goroutine parks (woken by a timer) or max has elapsed, whichever is first.
// With early=false it sleeps for exactly max.
func Sleep(max time.Duration, early bool) {
	RaceOff()
	defer RaceOn()
	if !early {
		time.Sleep(max)
		return
	}
	select {
	case <-idle:
	default:
	}
	t := time.NewTimer(max)
	select {
	case <-idle:
		t.Stop()
	case <-t.C:
	}
}

// SetStep publishes the scheduler step to the runtime randomness hook.
func SetStep(n uint64) { rtSetStep(n) }

// ParkedGs returns the releasable goroutines ordered by Seq.
func ParkedGs(buf []*G) []*G {
	buf = buf[:0]
	lockMu()
	for _, g := range all {
		if g.parked && !g.done && g.eligible() {
			buf = append(buf, g)
		}
	}
	unlockMu()
	return buf
}

// BlockedOnLocks returns parked goroutines that wait for a held lock.
func BlockedOnLocks() []*G {
	var out []*G
	lockMu()
	for _, g := range all {
		if g.parked && !g.done && !g.eligible() {
			out = append(out, g)
		}
	}
	unlockMu()
	return out
}

// Release hands the token to g. The caller must call Wait afterwards.
func Release(g *G) {
	lockMu()
	if !g.parked {
		unlockMu()
		panic("simrt: release of a goroutine that is not parked: " + g.String())
	}
	g.parked = false
	g.waitLock = nil
	g.Steps++
	current = g
	unlockMu()
	RaceOff()
	g.wake <- struct{}{}
	RaceOn()
}

// Live returns all managed goroutines that have not exited (excluding the
// scheduler), ordered by Seq.
func Live() []*G {
	var out []*G
	lockMu()
	for _, g := range all {
		if g != root && !g.done {
			out = append(out, g)
		}
	}
	unlockMu()
	return out
}

// NumSpawned returns the number of goroutines ever registered.
func NumSpawned() int {
	lockMu()
	defer unlockMu()
	return len(all)
}

// Free switches every scheduling point to a no-op and releases all parked
// goroutines; used for teardown at the end of a run.
func Free() {
	lockMu()
	active = false
	var ps []*G
	for _, g := range all {
		if g.parked && !g.done {
			g.parked = false
			g.waitLock = nil
			ps = append(ps, g)
		}
	}
	unlockMu()
	RaceOff()
	for _, g := range ps {
		g.wake <- struct{}{}
	}
	RaceOn()
}

// Violations returns violations reported from inside the code under test.
func Violations() [][2]string {
	lockMu()
	defer unlockMu()
	out := make([][2]string, len(viols))
	for i, v := range viols {
		out[i] = [2]string{v.Kind, v.Msg}
	}
	return out
}

// SiteHits returns how often each scheduling point parked a goroutine.
func SiteHits() map[string]int {
	lockMu()
	defer unlockMu()
	out := make(map[string]int, len(siteHits))
	for k, v := range siteHits {
		out[k] = v
	}
	return out
}

// SortedSites returns site names in sorted order (deterministic reporting).
func SortedSites(m map[string]int) []string {
	ks := make([]string, 0, len(m))
	for k := range m {
		ks = append(ks, k)
	}
	sort.Strings(ks)
	return ks
}
