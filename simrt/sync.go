package verifsimrt

import (
	"sync"
	"sync/atomic"
)

// Cooperative replacements for sync.Mutex, sync.RWMutex and sync.Once. The
// instrumenter substitutes them for the sync types in the gohbase packages
// (type positions only; the call sites are unchanged). In controlled mode a
// managed goroutine that finds the lock held parks in the simulator and
// becomes eligible again when the lock is free, so a goroutine may park at a
// scheduling point *inside* a critical section or inside Once.Do without
// anybody blocking on a real mutex (which synctest would not treat as durably
// blocked). Outside controlled mode they behave like the sync types.

type lockState struct {
	writer  *G
	readers int
}

// Mutex replaces sync.Mutex.
type Mutex struct {
	real sync.Mutex
	st   lockState
}

func (m *Mutex) Lock() {
	if g := acquire(&m.st, true); g != nil {
		m.real.Lock()
		return
	}
	m.real.Lock()
}

func (m *Mutex) Unlock() {
	release(&m.st, true)
	m.real.Unlock()
}

func (m *Mutex) TryLock() bool {
	if freeMode.Load() {
		return m.real.TryLock()
	}
	mu.Lock()
	busy := m.st.writer != nil
	mu.Unlock()
	if busy {
		return false
	}
	return m.real.TryLock()
}

// RWMutex replaces sync.RWMutex.
type RWMutex struct {
	real sync.RWMutex
	st   lockState
}

func (m *RWMutex) Lock() {
	acquire(&m.st, true)
	m.real.Lock()
}

func (m *RWMutex) Unlock() {
	release(&m.st, true)
	m.real.Unlock()
}

func (m *RWMutex) RLock() {
	acquire(&m.st, false)
	m.real.RLock()
}

func (m *RWMutex) RUnlock() {
	release(&m.st, false)
	m.real.RUnlock()
}

// TryRLock is for the scheduler-side hooks: it never blocks.
func (m *RWMutex) TryRLock() bool {
	if freeMode.Load() {
		return m.real.TryRLock()
	}
	mu.Lock()
	busy := m.st.writer != nil
	mu.Unlock()
	if busy {
		return false
	}
	return m.real.TryRLock()
}

// acquire parks the calling managed goroutine until the lock can be taken
// and records the acquisition. It returns nil for unmanaged callers.
func acquire(st *lockState, write bool) *G {
	if freeMode.Load() {
		return nil
	}
	id := rtGoid()
	for {
		mu.Lock()
		g := byGoid[id]
		if g == nil || g == root || !active {
			mu.Unlock()
			return nil
		}
		free := st.writer == nil && (!write || st.readers == 0)
		if free {
			if write {
				st.writer = g
			} else {
				st.readers++
			}
			g.held++
			mu.Unlock()
			return g
		}
		// contended: park until the scheduler sees the lock free
		g.waitLock = st
		g.waitWrite = write
		g.parked = true
		lockWaits++
		ch := idle
		mu.Unlock()
		select {
		case ch <- struct{}{}:
		default:
		}
		<-g.wake
	}
}

func release(st *lockState, write bool) {
	if freeMode.Load() {
		return
	}
	id := rtGoid()
	mu.Lock()
	g := byGoid[id]
	if write {
		if st.writer != nil {
			st.writer = nil
			if g != nil && g.held > 0 {
				g.held--
			}
		}
	} else if st.readers > 0 {
		st.readers--
		if g != nil && g.held > 0 {
			g.held--
		}
	}
	mu.Unlock()
}

// eligible reports whether a parked goroutine can make progress if released.
func (g *G) eligible() bool {
	if g.waitLock == nil {
		return true
	}
	st := g.waitLock
	return st.writer == nil && (!g.waitWrite || st.readers == 0)
}

// Once replaces sync.Once.
type Once struct {
	done atomic.Bool
	m    Mutex
}

func (o *Once) Do(f func()) {
	if o.done.Load() {
		return
	}
	o.m.Lock()
	defer o.m.Unlock()
	if !o.done.Load() {
		defer o.done.Store(true)
		f()
	}
}

var lockWaits int

// LockWaits returns how often a goroutine found a lock held and parked.
func LockWaits() int {
	mu.Lock()
	defer mu.Unlock()
	return lockWaits
}
