package verifsimrt

import (
	"sync"
	"sync/atomic"
	"unsafe"
)

// Cooperative replacements for sync.Mutex, sync.RWMutex and sync.Once. The
// instrumenter substitutes them for the sync types in the gohbase packages
// (type positions only; the call sites are unchanged).
//
// Outside free mode the lock *is* the lockState below, protected by the
// package mutex; no real sync.Mutex is ever held across a scheduling point:
//   - a managed goroutine that finds the lock held parks in the simulator and
//     becomes eligible again when the lock is free, so a goroutine may park at
//     a scheduling point *inside* a critical section or inside Once.Do;
//   - an unmanaged goroutine, and every goroutine once the run has been freed
//     for teardown, waits on a channel that the next release closes. That is a
//     durable block for synctest: a lock that the code under test leaked (a
//     missing Unlock) ends the bubble with "blocked goroutines remain" instead
//     of wedging the process on a real mutex, which synctest does not treat
//     as durably blocked.
//
// In free (-race) mode they are the real sync types and nothing else.

type lockState struct {
	writer  *G
	wheld   bool // write-held (writer may be nil for unmanaged holders)
	readers int
	waitCh  chan struct{} // closed by the next release; for channel waiters
}

// Mutex replaces sync.Mutex.
type Mutex struct {
	real sync.Mutex
	st   lockState
}

// The race-detector annotations are those of the sync types they replace:
// the code under test keeps exactly the happens-before edges its own locks
// give it, and gets none from the simulator.

func (m *Mutex) Lock() {
	if freeMode.Load() {
		m.real.Lock()
		return
	}
	acquire(&m.st, true)
	raceAcquire(unsafe.Pointer(m))
}

func (m *Mutex) Unlock() {
	if freeMode.Load() {
		m.real.Unlock()
		return
	}
	raceRelease(unsafe.Pointer(m))
	release(&m.st, true)
}

func (m *Mutex) TryLock() bool {
	if freeMode.Load() {
		return m.real.TryLock()
	}
	if !tryAcquire(&m.st, true) {
		return false
	}
	raceAcquire(unsafe.Pointer(m))
	return true
}

// RWMutex replaces sync.RWMutex.
type RWMutex struct {
	real       sync.RWMutex
	st         lockState
	rsem, wsem uint32 // addresses for the race annotations (readerSem / writerSem of sync.RWMutex)
}

func (m *RWMutex) Lock() {
	if freeMode.Load() {
		m.real.Lock()
		return
	}
	acquire(&m.st, true)
	raceAcquire(unsafe.Pointer(&m.rsem))
	raceAcquire(unsafe.Pointer(&m.wsem))
}

func (m *RWMutex) Unlock() {
	if freeMode.Load() {
		m.real.Unlock()
		return
	}
	raceRelease(unsafe.Pointer(&m.rsem))
	release(&m.st, true)
}

func (m *RWMutex) RLock() {
	if freeMode.Load() {
		m.real.RLock()
		return
	}
	acquire(&m.st, false)
	raceAcquire(unsafe.Pointer(&m.rsem))
}

func (m *RWMutex) RUnlock() {
	if freeMode.Load() {
		m.real.RUnlock()
		return
	}
	raceReleaseMerge(unsafe.Pointer(&m.wsem))
	release(&m.st, false)
}

// TryRLock is for the scheduler-side hooks: it never blocks.
func (m *RWMutex) TryRLock() bool {
	if freeMode.Load() {
		return m.real.TryRLock()
	}
	if !tryAcquire(&m.st, false) {
		return false
	}
	raceAcquire(unsafe.Pointer(&m.rsem))
	return true
}

func (st *lockState) free(write bool) bool {
	return !st.wheld && (!write || st.readers == 0)
}

func (st *lockState) take(g *G, write bool) {
	if write {
		st.wheld = true
		st.writer = g
	} else {
		st.readers++
	}
	if g != nil {
		g.held++
	}
}

func tryAcquire(st *lockState, write bool) bool {
	id := rtGoid()
	lockMu()
	defer unlockMu()
	if !st.free(write) {
		return false
	}
	g := byGoid.get(id)
	if g == root {
		g = nil
	}
	st.take(g, write)
	return true
}

// acquire takes the lock, waiting as long as needed.
func acquire(st *lockState, write bool) {
	id := rtGoid()
	for {
		lockMu()
		g := byGoid.get(id)
		managed := g != nil && g != root && active
		if st.free(write) {
			if !managed {
				g = nil
			}
			st.take(g, write)
			unlockMu()
			return
		}
		if managed {
			// contended: park until the scheduler sees the lock free
			g.waitLock = st
			g.waitWrite = write
			g.parked = true
			lockWaits++
			ch := idle
			unlockMu()
			RaceOff()
			select {
			case ch <- struct{}{}:
			default:
			}
			<-g.wake
			RaceOn()
			continue
		}
		// unmanaged, or the run has been freed: wait durably for a release
		if st.waitCh == nil {
			st.waitCh = make(chan struct{})
		}
		ch := st.waitCh
		unlockMu()
		waitWake(ch)
	}
}

func release(st *lockState, write bool) {
	id := rtGoid()
	lockMu()
	g := byGoid.get(id)
	if write {
		if st.wheld {
			st.wheld = false
			if st.writer != nil && st.writer.held > 0 {
				st.writer.held--
			}
			st.writer = nil
		}
	} else if st.readers > 0 {
		st.readers--
		if g != nil && g != root && g.held > 0 {
			g.held--
		}
	}
	if st.waitCh != nil {
		RaceOff()
		close(st.waitCh)
		RaceOn()
		st.waitCh = nil
	}
	unlockMu()
}

// eligible reports whether a parked goroutine can make progress if released.
func (g *G) eligible() bool {
	if g.waitLock == nil {
		return true
	}
	return g.waitLock.free(g.waitWrite)
}

// Once replaces sync.Once.
type Once struct {
	done atomic.Bool
	m    Mutex
}

func (o *Once) Do(f func()) {
	// this package is compiled without race instrumentation, so the atomic
	// flag is invisible to the race detector: the edge "f returned before any
	// Do returns" is annotated by hand, as for the locks
	if o.done.Load() {
		raceAcquire(unsafe.Pointer(o))
		return
	}
	o.m.Lock()
	defer o.m.Unlock()
	if !o.done.Load() {
		defer func() {
			raceRelease(unsafe.Pointer(o))
			o.done.Store(true)
		}()
		f()
	} else {
		raceAcquire(unsafe.Pointer(o))
	}
}

var lockWaits int

// LockWaits returns how often a goroutine found a lock held and parked.
func LockWaits() int {
	lockMu()
	defer unlockMu()
	return lockWaits
}

// Pool replaces sync.Pool. Which pooled object a Get returns - or whether it
// returns a fresh one although objects are pooled (the real pool is per-P and
// is emptied by the garbage collector) - is a source of nondeterminism the
// code under test can depend on through stale state in a reused object. In
// controlled mode the choice is a pure function of (run seed, ordinal of the
// Get); every pool is emptied when a run starts, so a run does not depend on
// what the worker process executed before it.
type Pool struct {
	New   func() any
	real  sync.Pool
	items []any // fixed capacity: append never grows it (growslice is annotated by the runtime)
	reg   bool
}

var (
	pools   = make([]*Pool, 0, 16)
	poolCtr uint64
	runSeed uint64
)

func poolMix(a, b uint64) uint64 {
	x := a ^ (b+0x9e3779b97f4a7c15)*0xbf58476d1ce4e5b9
	x ^= x >> 30
	x *= 0xbf58476d1ce4e5b9
	x ^= x >> 27
	x *= 0x94d049bb133111eb
	x ^= x >> 31
	return x
}

// resetPools is called when a run starts.
func resetPools(seed uint64) {
	for _, p := range pools {
		for i := range p.items {
			p.items[i] = nil
		}
		p.items = p.items[:0]
	}
	poolCtr = 0
	runSeed = seed
}

func (p *Pool) Get() any {
	if freeMode.Load() {
		if v := p.real.Get(); v != nil {
			return v
		}
		if p.New != nil {
			return p.New()
		}
		return nil
	}
	lockMu()
	if !p.reg {
		p.reg = true
		pools = append(pools, p)
	}
	poolCtr++
	h := poolMix(runSeed, poolCtr)
	var v any
	if n := len(p.items); n > 0 && h%8 != 0 {
		i := int((h >> 8) % uint64(n))
		v = p.items[i]
		p.items[i] = p.items[n-1]
		p.items[n-1] = nil
		p.items = p.items[:n-1]
	}
	unlockMu()
	if v != nil {
		raceAcquire(poolRaceAddr(v))
	}
	if v == nil && p.New != nil {
		v = p.New()
	}
	return v
}

var poolRaceHash [128]uint64

// poolRaceAddr is sync.Pool's: the annotations are keyed by the object, hashed
// into a small table.
func poolRaceAddr(x any) unsafe.Pointer {
	ptr := uintptr((*[2]unsafe.Pointer)(unsafe.Pointer(&x))[1])
	h := uint32((uint64(uint32(ptr)) * 0x85ebca6b) >> 16)
	return unsafe.Pointer(&poolRaceHash[h%uint32(len(poolRaceHash))])
}

func (p *Pool) Put(x any) {
	if x == nil {
		return
	}
	if freeMode.Load() {
		p.real.Put(x)
		return
	}
	raceReleaseMerge(poolRaceAddr(x))
	lockMu()
	if !p.reg {
		p.reg = true
		pools = append(pools, p)
	}
	if p.items == nil {
		p.items = make([]any, 0, 64)
	}
	if len(p.items) < cap(p.items) {
		p.items = append(p.items, x)
	}
	unlockMu()
}
