#!/bin/bash
# build.sh <scratch-dir> [race]  -- builds tools, overlay and the sim worker from /repo's working tree.
# Exit 2 on any tool trouble.
set -u
SCR="$1"; MODE="${2:-ctl}"
VERIF="$(cd "$(dirname "$0")" && pwd)"
REPO="${VERIF_REPO:-/repo}"
export GOFLAGS=-mod=mod GOPROXY=off GOSUMDB=off GOTOOLCHAIN=local CGO_ENABLED=${CGO_ENABLED:-0}
GO=go1.26.8
GOROOT_DIR="$($GO env GOROOT)"
mkdir -p "$SCR/bin" "$SCR/rt" "$SCR/inst" || exit 2
( cd "$VERIF/tools" && $GO build -o "$SCR/bin/rtoverlay" ./rtoverlay && $GO build -o "$SCR/bin/instrument" ./instrument && $GO build -o "$SCR/bin/driver" ./driver ) || { echo "build.sh: tool build failed" >&2; exit 2; }
"$SCR/bin/rtoverlay" -goroot "$GOROOT_DIR" -out "$SCR/rt" > "$SCR/rt.json" || exit 2
"$SCR/bin/instrument" -repo "$REPO" -out "$SCR" ${VERIF_DENSE:+-dense "$VERIF_DENSE"} ${VERIF_VDENSE:+-vdense "$VERIF_VDENSE"} . region hrpc > "$SCR/inst.json" 2> "$SCR/inst.log" || { cat "$SCR/inst.log" >&2; exit 2; }
# gosim module copy with replace => $REPO
rm -rf "$SCR/gosim" && cp -r "$VERIF/gosim" "$SCR/gosim" || exit 2
sed -i "s#=> /repo#=> $REPO#" "$SCR/gosim/go.mod"
cp "$REPO/go.sum" "$SCR/gosim/go.sum"
python3 - "$SCR" "$VERIF" "$REPO" <<'PY' || exit 2
import json,sys,os
scr,verif,repo=sys.argv[1:4]
repl={}
repl.update(json.load(open(scr+"/rt.json")))
repl.update(json.load(open(scr+"/inst.json")))
repl[repo+"/verif_hooks.go"]=verif+"/hooks/verif_hooks.go"
for f in os.listdir(verif+"/simrt"):
    if f.endswith(".go"):
        repl[repo+"/verifsimrt/"+f]=verif+"/simrt/"+f
json.dump({"Replace":repl},open(scr+"/overlay.json","w"),indent=1)
PY
cd "$SCR/gosim" || exit 2
if [ "$MODE" = race ]; then
  # the harness packages (simulator, cluster model, goroutine runtime) are compiled without race
  # instrumentation: only memory accesses of the code under test (and of the standard library) are watched
  CGO_ENABLED=1 $GO build -race -gcflags='gosim/...=-race=false' -gcflags='github.com/tsuna/gohbase/verifsimrt=-race=false' -gcflags='gosim/seam=-race' \
    -tags verif -overlay "$SCR/overlay.json" -o "$SCR/bin/simworker-race" ./cmd/simworker || { echo "build.sh: race worker build failed" >&2; exit 2; }
else
  $GO build -tags verif -overlay "$SCR/overlay.json" -o "$SCR/bin/simworker" ./cmd/simworker || { echo "build.sh: worker build failed" >&2; exit 2; }
fi
exit 0
