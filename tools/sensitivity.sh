#!/bin/bash
# sensitivity.sh [id ...]  -- re-test the seeded changes under /verif/seeded against the checks.
# For each seed: apply the patch to a scratch worktree of /repo HEAD, build the worker from it, run the
# property's profile(s) and report how many runs violate. Writes /verif/seeded/SENSITIVITY.tsv.
# /repo itself is never touched. Budget per seed: N runs (default per property below), 8 workers.
set -u
cd /verif || exit 2
export GOFLAGS=-mod=mod GOPROXY=off GOSUMDB=off GOTOOLCHAIN=local
declare -A PROF=( [C01]=c01 [C02]=c02 [C03]=c03rc [C04]=c04 [C05]=c05 [C06]=c06 [C07]=c07 [C08]=c08 [C09]=c09 [C11]=c11 [C12]=c12 [C13]=c13 [C14]=c14 [C17]=c17 [C18]=c18 [C19]=c19 [C20]=c20 )
declare -A NRUN=( [C01]=8000 [C02]=8000 [C03]=16000 [C04]=8000 [C05]=8000 [C06]=8000 [C07]=8000 [C08]=8000 [C09]=8000 [C11]=32000 [C12]=8000 [C13]=4000 [C14]=8000 [C17]=8000 [C18]=32000 [C19]=8000 [C20]=8000 )
OUT=/verif/seeded/SENSITIVITY.tsv
ids=("$@")
if [ ${#ids[@]} -eq 0 ]; then ids=($(ls /verif/seeded | grep -v SENSITIVITY)); : > $OUT; fi
for id in "${ids[@]}"; do
  d=/verif/seeded/$id
  [ -f $d/patch.diff ] || continue
  prop=$(jq -r .property $d/meta.json)
  prof=${PROF[$prop]:-}; n=${NRUN[$prop]:-8000}
  [ -z "$prof" ] && { echo -e "$id\t$prop\t-\t-\tno profile" | tee -a $OUT; continue; }
  extra=""
  case $id in
    C05b|C05c) export VERIF_VDENSE=region/compressor.go,region/multi.go,hrpc/mutate.go,hrpc/get.go,hrpc/scan.go; extra=" (statement-dense build)";;
    C02h) export VERIF_VDENSE=region/client.go,region/multi.go; extra=" (statement-dense build)";;
    C06k) export VERIF_VDENSE=scanner.go,hrpc/scan.go,hrpc/query.go,hrpc/call.go; extra=" (statement-dense build)";;
    *) unset VERIF_VDENSE;;
  esac
  case $id in
    C08f) prof=c06; extra=" (C08 leg over the scan workload)";;
    C18i|C18k) prof=c18wc; extra=" (whole-client C18 leg)";;
    C08j) prof=c17; extra=" (C08 leg over the stale-meta scenarios)";;
    C08l) prof=c04; n=4000; extra=" (C08 monitor leg over the fault workload)";;
    C04l) prof=c04admin; extra=" (administrative calls)";;
    C08g) prof=c20; extra=" (C08 leg over the shared-connection workload)";;
  esac
  unset RACE RACECTL
  case $id in
    revert-388177c|C09g|C09j|C09k|C09l|C09m) export RACE=1 RACECTL=" "; n=6400; extra=" (controlled race build)";;
    C09h) export RACE=1 RACECTL=" "; n=6400; prof=c19; extra=" (controlled race build)";;
    C09i|C09o) export RACE=1 RACECTL=" "; n=6400; prof=c14; extra=" (controlled race build)";;
    C09n) export RACE=1 RACECTL=" "; n=6400; extra=" (controlled race build)";;
    C09p) export RACE=1 RACECTL=" "; n=9600; prof=c04; extra=" (controlled race build)";;
    C09q) export RACE=1 RACECTL=" "; n=6400; prof=c13; extra=" (controlled race build)";;
    C09r) export RACE=1 RACECTL=" "; n=6400; prof=c05; extra=" (controlled race build)";;
    C09s) export RACE=1 RACECTL=" "; n=9600; prof=c01; extra=" (controlled race build)";;
    C09u) export RACE=1 RACECTL=" "; n=6400; prof=c09; extra=" (controlled race build)";;
    C09v) export RACE=1 RACECTL=" "; n=6400; prof=c20; extra=" (controlled race build)";;
    C09w) export RACE=1 RACECTL=" "; n=6400; prof=c14; extra=" (controlled race build)";;
  esac
  if ! git -C /repo apply --check $d/patch.diff 2>/dev/null; then
    echo -e "$id\t$prop\t$prof\t-\tpatch does not apply to /repo HEAD (superseded by a later fix)" | tee -a $OUT; continue
  fi
  res=$(PROP=$prop SHOW=1 timeout 1500 tools/seedtest.sh $d/patch.diff $prof $n 2>&1)
  sum=$(echo "$res" | grep -m1 '^{"runs"' )
  first=$(echo "$res" | grep -m1 '^seed ' | cut -c1-160)
  crash=$(echo "$res" | grep -c 'crashed:')
  runs=$(echo "$sum" | jq -r '.runs // 0'); viol=$(echo "$sum" | jq -r '.violations // 0')
  verdict="MISSED"
  if [ "${viol:-0}" != "0" ] && [ "${viol:-0}" != "null" ]; then verdict="detected"; fi
  if [ "$crash" != "0" ]; then verdict="detected"; first="$first [$crash worker(s) died: panic / abort]"; fi
  echo -e "$id\t$prop\t$prof$extra\t$viol / $runs\t$verdict\t$first" | tee -a $OUT
done
