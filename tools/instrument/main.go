// instrument rewrites the non-test Go files of the gohbase packages that
// carry concurrency into a scratch directory, inserting scheduling points
// (DESIGN §2.3), and prints overlay "Replace" entries (JSON object) mapping
// each original path to its instrumented copy.
//
// usage: instrument -repo /repo -out <scratch> [-dense file.go,...] pkgdir...
//
// Rules (syntactic, add-only at statement level):
//
//	R1  go f(a,b)            -> { f0:=f; t0,t1:=a,b; tk:=Spawn; go func(){Begin(tk); defer End(); f0(t0,t1)}() }
//	R2  select{}             -> Yield; select{ case ..: Woke; ... }
//	    ch <- v (statement)  -> simrt.Send(site, isResultChan, ch, v)
//	    <-ch / x := <-ch     -> Yield; stmt; Woke
//	R3  x.Lock()/RLock()     -> Yield; x.Lock(); Depth(+1)
//	    x.Unlock()/RUnlock() -> x.Unlock(); Depth(-1)      (also in defer)
//	    once.Do(f)           -> Depth(+1); once.Do(f); Depth(-1)
//
// It fails closed (exit 2) on any construct it does not understand.
package main

import (
	"bytes"
	"encoding/json"
	"flag"
	"fmt"
	"go/ast"
	"go/format"
	"go/parser"
	"go/token"
	"os"
	"path/filepath"
	"sort"
	"strconv"
	"strings"
)

const simrtPath = "github.com/tsuna/gohbase/verifsimrt"
const simrtName = "verifsimrt"

func die(format string, a ...any) {
	fmt.Fprintf(os.Stderr, "instrument: "+format+"\n", a...)
	os.Exit(2)
}

type inst struct {
	fset    *token.FileSet
	file    string // base name, with package dir prefix
	fn      string // current function
	used    bool
	tmp     int
	handled map[*ast.UnaryExpr]bool
	dense   bool
	vdense  bool // a scheduling point before every statement
	points  int
}

func sel(name string) ast.Expr {
	return &ast.SelectorExpr{X: ast.NewIdent(simrtName), Sel: ast.NewIdent(name)}
}

func strlit(s string) ast.Expr {
	return &ast.BasicLit{Kind: token.STRING, Value: strconv.Quote(s)}
}

func (in *inst) site(pos token.Pos, kind string) ast.Expr {
	p := in.fset.Position(pos)
	return strlit(fmt.Sprintf("%s:%s:%s:%d", in.file, in.fn, kind, p.Line))
}

func (in *inst) call(fn string, args ...ast.Expr) ast.Stmt {
	in.used = true
	in.points++
	return &ast.ExprStmt{X: &ast.CallExpr{Fun: sel(fn), Args: args}}
}

func intlit(n int) ast.Expr {
	if n < 0 {
		return &ast.UnaryExpr{Op: token.SUB, X: &ast.BasicLit{Kind: token.INT, Value: strconv.Itoa(-n)}}
	}
	return &ast.BasicLit{Kind: token.INT, Value: strconv.Itoa(n)}
}

func isRecv(e ast.Expr) (*ast.UnaryExpr, bool) {
	for {
		if p, ok := e.(*ast.ParenExpr); ok {
			e = p.X
			continue
		}
		break
	}
	u, ok := e.(*ast.UnaryExpr)
	return u, ok && u.Op == token.ARROW
}

// lockCall classifies x.Lock() etc. Returns kind "lock", "unlock", "do" or "".
func lockCall(e ast.Expr) string {
	c, ok := e.(*ast.CallExpr)
	if !ok {
		return ""
	}
	s, ok := c.Fun.(*ast.SelectorExpr)
	if !ok {
		return ""
	}
	switch s.Sel.Name {
	case "Lock", "RLock":
		if len(c.Args) == 0 {
			return "lock"
		}
	case "Unlock", "RUnlock":
		if len(c.Args) == 0 {
			return "unlock"
		}
	case "Do":
		if len(c.Args) == 1 {
			// only sync.Once-like receivers: name ends in "Once" or "once"
			if n := exprName(s.X); strings.HasSuffix(strings.ToLower(n), "once") {
				return "do"
			}
		}
	}
	return ""
}

func exprName(e ast.Expr) string {
	switch x := e.(type) {
	case *ast.Ident:
		return x.Name
	case *ast.SelectorExpr:
		return x.Sel.Name
	}
	return ""
}

func (in *inst) exprString(e ast.Expr) string {
	var b bytes.Buffer
	format.Node(&b, in.fset, e)
	return b.String()
}

// funcLits instruments the bodies of all function literals inside n
// (not descending into nested statements lists handled elsewhere).
func (in *inst) funcLits(n ast.Node) {
	if n == nil {
		return
	}
	ast.Inspect(n, func(x ast.Node) bool {
		if fl, ok := x.(*ast.FuncLit); ok {
			saved := in.fn
			in.fn = saved + ".func"
			fl.Body.List = in.stmts(fl.Body.List)
			in.fn = saved
			return false
		}
		return true
	})
}

func (in *inst) block(b *ast.BlockStmt) {
	if b != nil {
		b.List = in.stmts(b.List)
	}
}

func (in *inst) stmts(list []ast.Stmt) []ast.Stmt {
	var out []ast.Stmt
	for _, s := range list {
		if in.vdense && s != nil {
			switch s.(type) {
			case *ast.EmptyStmt, *ast.DeclStmt:
			default:
				out = append(out, in.call("Yield", in.site(s.Pos(), "stmt")))
			}
		}
		out = append(out, in.stmt(s)...)
	}
	return out
}

func (in *inst) stmt(s ast.Stmt) []ast.Stmt {
	switch s := s.(type) {
	case nil:
		return nil
	case *ast.GoStmt:
		return []ast.Stmt{in.goStmt(s)}
	case *ast.SelectStmt:
		pre := in.call("Yield", in.site(s.Pos(), "select"))
		in.selectBody(s)
		return []ast.Stmt{pre, s}
	case *ast.SendStmt:
		in.funcLits(s.Chan)
		in.funcLits(s.Value)
		in.used = true
		in.points++
		check := "false"
		if strings.Contains(in.exprString(s.Chan), "ResultChan()") {
			check = "true"
		}
		return []ast.Stmt{&ast.ExprStmt{X: &ast.CallExpr{Fun: sel("Send"),
			Args: []ast.Expr{in.site(s.Pos(), "send"), ast.NewIdent(check), s.Chan, s.Value}}}}
	case *ast.ExprStmt:
		if u, ok := isRecv(s.X); ok {
			in.handled[u] = true
			in.funcLits(u.X)
			return []ast.Stmt{in.call("Yield", in.site(s.Pos(), "recv")), s, in.call("Woke", in.site(s.Pos(), "recv"))}
		}
		switch lockCall(s.X) {
		case "lock":
			return []ast.Stmt{in.call("Yield", in.site(s.Pos(), "lock")), s}
		case "unlock":
			return []ast.Stmt{s, in.call("Yield", in.site(s.Pos(), "unlock"))}
		case "do":
			in.funcLits(s.X)
			return []ast.Stmt{in.call("Yield", in.site(s.Pos(), "once")), s}
		}
		in.funcLits(s.X)
		return []ast.Stmt{s}
	case *ast.AssignStmt:
		if len(s.Rhs) == 1 {
			if u, ok := isRecv(s.Rhs[0]); ok {
				in.handled[u] = true
				in.funcLits(u.X)
				return []ast.Stmt{in.call("Yield", in.site(s.Pos(), "recv")), s, in.call("Woke", in.site(s.Pos(), "recv"))}
			}
		}
		for _, e := range s.Rhs {
			in.funcLits(e)
		}
		return []ast.Stmt{s}
	case *ast.DeferStmt:
		if lockCall(s.Call) == "unlock" {
			return []ast.Stmt{s}
		}
		if k := lockCall(s.Call); k != "" {
			die("%s: unsupported deferred %s", in.fset.Position(s.Pos()), k)
		}
		in.funcLits(s.Call)
		return []ast.Stmt{s}
	case *ast.LabeledStmt:
		inner := in.stmt(s.Stmt)
		// statements inserted before the labelled statement go before the label
		var pre []ast.Stmt
		idx := -1
		for i, x := range inner {
			if x == s.Stmt {
				idx = i
				break
			}
		}
		if idx < 0 {
			die("%s: labelled statement was replaced", in.fset.Position(s.Pos()))
		}
		pre = append(pre, inner[:idx]...)
		pre = append(pre, s)
		pre = append(pre, inner[idx+1:]...)
		return pre
	case *ast.BlockStmt:
		in.block(s)
		return []ast.Stmt{s}
	case *ast.IfStmt:
		in.ifStmt(s)
		return []ast.Stmt{s}
	case *ast.ForStmt:
		in.simple(s.Init)
		in.funcLits(s.Cond)
		in.simple(s.Post)
		in.block(s.Body)
		return []ast.Stmt{s}
	case *ast.RangeStmt:
		in.funcLits(s.X)
		in.block(s.Body)
		return []ast.Stmt{s}
	case *ast.SwitchStmt:
		in.simple(s.Init)
		in.funcLits(s.Tag)
		in.caseBodies(s.Body)
		return []ast.Stmt{s}
	case *ast.TypeSwitchStmt:
		in.simple(s.Init)
		in.simple(s.Assign)
		in.caseBodies(s.Body)
		return []ast.Stmt{s}
	case *ast.ReturnStmt:
		for _, e := range s.Results {
			in.funcLits(e)
		}
		return []ast.Stmt{s}
	case *ast.DeclStmt:
		in.funcLits(s.Decl)
		return []ast.Stmt{s}
	case *ast.IncDecStmt, *ast.BranchStmt, *ast.EmptyStmt:
		return []ast.Stmt{s}
	}
	die("%s: unsupported statement %T", in.fset.Position(s.Pos()), s)
	return nil
}

// simple handles init/post statements, which cannot be expanded into several
// statements: they must not contain scheduling-relevant operations.
func (in *inst) simple(s ast.Stmt) {
	if s == nil {
		return
	}
	switch x := s.(type) {
	case *ast.ExprStmt:
		if lockCall(x.X) != "" {
			die("%s: lock call in init/post statement", in.fset.Position(s.Pos()))
		}
	case *ast.SendStmt, *ast.GoStmt:
		die("%s: send/go in init/post statement", in.fset.Position(s.Pos()))
	}
	in.funcLits(s)
}

func (in *inst) ifStmt(s *ast.IfStmt) {
	in.simple(s.Init)
	in.funcLits(s.Cond)
	in.block(s.Body)
	switch e := s.Else.(type) {
	case nil:
	case *ast.BlockStmt:
		in.block(e)
	case *ast.IfStmt:
		in.ifStmt(e)
	default:
		die("%s: unsupported else %T", in.fset.Position(s.Pos()), e)
	}
}

func (in *inst) caseBodies(b *ast.BlockStmt) {
	for _, c := range b.List {
		cc := c.(*ast.CaseClause)
		for _, e := range cc.List {
			in.funcLits(e)
		}
		cc.Body = in.stmts(cc.Body)
	}
}

func (in *inst) selectBody(s *ast.SelectStmt) {
	for i, c := range s.Body.List {
		cc := c.(*ast.CommClause)
		body := in.stmts(cc.Body)
		if cc.Comm != nil {
			// mark receives of the comm statement as handled
			switch cs := cc.Comm.(type) {
			case *ast.ExprStmt:
				if u, ok := isRecv(cs.X); ok {
					in.handled[u] = true
					in.funcLits(u.X)
				}
			case *ast.AssignStmt:
				if u, ok := isRecv(cs.Rhs[0]); ok {
					in.handled[u] = true
					in.funcLits(u.X)
				}
			case *ast.SendStmt:
				in.funcLits(cs.Chan)
				in.funcLits(cs.Value)
			}
			body = append([]ast.Stmt{in.call("Woke", in.site(cc.Pos(), "case"+strconv.Itoa(i)))}, body...)
		}
		cc.Body = body
	}
}

func (in *inst) goStmt(s *ast.GoStmt) ast.Stmt {
	in.used = true
	in.points++
	c := s.Call
	var pre []ast.Stmt
	newIdent := func() *ast.Ident {
		in.tmp++
		return ast.NewIdent(fmt.Sprintf("verifT%d", in.tmp))
	}
	// function value
	var fun ast.Expr
	if fl, ok := c.Fun.(*ast.FuncLit); ok {
		saved := in.fn
		in.fn = saved + ".go"
		fl.Body.List = in.stmts(fl.Body.List)
		in.fn = saved
		fun = fl
	} else {
		in.funcLits(c.Fun)
		f0 := newIdent()
		pre = append(pre, &ast.AssignStmt{Lhs: []ast.Expr{f0}, Tok: token.DEFINE, Rhs: []ast.Expr{c.Fun}})
		fun = f0
	}
	var args []ast.Expr
	for _, a := range c.Args {
		in.funcLits(a)
		t := newIdent()
		pre = append(pre, &ast.AssignStmt{Lhs: []ast.Expr{t}, Tok: token.DEFINE, Rhs: []ast.Expr{a}})
		args = append(args, t)
	}
	tk := newIdent()
	pre = append(pre, &ast.AssignStmt{Lhs: []ast.Expr{tk}, Tok: token.DEFINE,
		Rhs: []ast.Expr{&ast.CallExpr{Fun: sel("Spawn"), Args: []ast.Expr{in.site(s.Pos(), "go")}}}})
	body := &ast.BlockStmt{List: []ast.Stmt{
		&ast.ExprStmt{X: &ast.CallExpr{Fun: sel("Begin"), Args: []ast.Expr{tk}}},
		&ast.DeferStmt{Call: &ast.CallExpr{Fun: sel("End")}},
		&ast.ExprStmt{X: &ast.CallExpr{Fun: fun, Args: args, Ellipsis: c.Ellipsis}},
	}}
	g := &ast.GoStmt{Call: &ast.CallExpr{Fun: &ast.FuncLit{Type: &ast.FuncType{Params: &ast.FieldList{}}, Body: body}}}
	pre = append(pre, g)
	return &ast.BlockStmt{List: pre}
}

// replaceSync substitutes the cooperative lock types for sync.Mutex,
// sync.RWMutex and sync.Once, and the deterministic pool for sync.Pool, wherever they are named, and keeps the sync
// import used.
func (in *inst) replaceSync(f *ast.File) {
	importsSync := false
	for _, im := range f.Imports {
		if im.Path.Value == `"sync"` && im.Name == nil {
			importsSync = true
		}
	}
	if !importsSync {
		return
	}
	n := 0
	ast.Inspect(f, func(x ast.Node) bool {
		se, ok := x.(*ast.SelectorExpr)
		if !ok {
			return true
		}
		id, ok := se.X.(*ast.Ident)
		if !ok || id.Name != "sync" {
			return true
		}
		switch se.Sel.Name {
		case "Mutex", "RWMutex", "Once", "Pool":
			id.Name = simrtName
			n++
		}
		return true
	})
	if n > 0 {
		in.used = true
		f.Decls = append(f.Decls, &ast.GenDecl{Tok: token.VAR, Specs: []ast.Spec{&ast.ValueSpec{
			Names: []*ast.Ident{ast.NewIdent("_")},
			Type:  &ast.SelectorExpr{X: ast.NewIdent("sync"), Sel: ast.NewIdent("Locker")}}}})
	}
}

func (in *inst) fileDecls(f *ast.File) {
	in.replaceSync(f)
	for _, d := range f.Decls {
		switch d := d.(type) {
		case *ast.FuncDecl:
			if d.Body == nil {
				continue
			}
			in.fn = d.Name.Name
			d.Body.List = in.stmts(d.Body.List)
			if in.dense {
				d.Body.List = append([]ast.Stmt{in.call("Yield", in.site(d.Pos(), "entry"))}, d.Body.List...)
			}
		case *ast.GenDecl:
			in.fn = "init"
			in.funcLits(d)
		}
	}
}

func addImport(f *ast.File) {
	imp := &ast.ImportSpec{Name: ast.NewIdent(simrtName), Path: &ast.BasicLit{Kind: token.STRING, Value: strconv.Quote(simrtPath)}}
	decl := &ast.GenDecl{Tok: token.IMPORT, Specs: []ast.Spec{imp}}
	f.Decls = append([]ast.Decl{decl}, f.Decls...)
}

func main() {
	repo := flag.String("repo", "/repo", "repository root")
	out := flag.String("out", "", "scratch output directory")
	dense := flag.String("dense", "", "comma separated files (relative to repo) that get function-entry yields")
	vdense := flag.String("vdense", "", "comma separated files (relative to repo) that get a yield before every statement")
	flag.Parse()
	if *out == "" || flag.NArg() == 0 {
		die("usage: instrument -repo R -out D pkgdir...")
	}
	denseSet := map[string]bool{}
	for _, d := range strings.Split(*dense, ",") {
		if d != "" {
			denseSet[d] = true
		}
	}
	vdenseSet := map[string]bool{}
	for _, d := range strings.Split(*vdense, ",") {
		if d != "" {
			vdenseSet[d] = true
		}
	}
	repl := map[string]string{}
	total := 0
	for _, pkg := range flag.Args() {
		dir := filepath.Join(*repo, pkg)
		ents, err := os.ReadDir(dir)
		if err != nil {
			die("%v", err)
		}
		var names []string
		for _, e := range ents {
			n := e.Name()
			if e.IsDir() || !strings.HasSuffix(n, ".go") || strings.HasSuffix(n, "_test.go") {
				continue
			}
			names = append(names, n)
		}
		sort.Strings(names)
		for _, n := range names {
			path := filepath.Join(dir, n)
			rel := filepath.Join(pkg, n)
			fset := token.NewFileSet()
			f, err := parser.ParseFile(fset, path, nil, parser.ParseComments)
			if err != nil {
				die("parse %s: %v", path, err)
			}
			in := &inst{fset: fset, file: filepath.ToSlash(filepath.Clean(rel)), handled: map[*ast.UnaryExpr]bool{}, dense: denseSet[filepath.ToSlash(filepath.Clean(rel))], vdense: vdenseSet[filepath.ToSlash(filepath.Clean(rel))]}
			in.fileDecls(f)
			// fail closed: every receive expression must have been handled
			ast.Inspect(f, func(x ast.Node) bool {
				if u, ok := x.(*ast.UnaryExpr); ok && u.Op == token.ARROW && !in.handled[u] {
					die("%s: receive expression in unsupported position", fset.Position(u.Pos()))
				}
				return true
			})
			if !in.used {
				continue
			}
			addImport(f)
			var buf bytes.Buffer
			// comments are dropped on purpose except build constraints and
			// directives: positions of inserted nodes confuse the comment map.
			var hdr bytes.Buffer
			for _, cg := range f.Comments {
				if cg.End() >= f.Package {
					break
				}
				for _, c := range cg.List {
					if strings.HasPrefix(c.Text, "//go:build") || strings.HasPrefix(c.Text, "// +build") {
						hdr.WriteString(c.Text + "\n")
					}
				}
			}
			if hdr.Len() > 0 {
				hdr.WriteString("\n")
			}
			directives := map[token.Pos]bool{}
			_ = directives
			f.Comments = nil
			stripDocs(f)
			if err := format.Node(&buf, fset, f); err != nil {
				die("print %s: %v", path, err)
			}
			src := append(hdr.Bytes(), buf.Bytes()...)
			// must still parse
			if _, err := parser.ParseFile(token.NewFileSet(), path, src, 0); err != nil {
				die("instrumented %s does not parse: %v", path, err)
			}
			dst := filepath.Join(*out, "inst", rel)
			if err := os.MkdirAll(filepath.Dir(dst), 0o755); err != nil {
				die("%v", err)
			}
			if err := os.WriteFile(dst, src, 0o644); err != nil {
				die("%v", err)
			}
			repl[path] = dst
			total += in.points
		}
	}
	fmt.Fprintf(os.Stderr, "instrument: %d files, %d scheduling points\n", len(repl), total)
	json.NewEncoder(os.Stdout).Encode(repl)
}

// stripDocs removes doc comments from declarations (they were detached from
// f.Comments and would otherwise be printed at stale positions).
func stripDocs(f *ast.File) {
	f.Doc = nil
	ast.Inspect(f, func(n ast.Node) bool {
		switch x := n.(type) {
		case *ast.FuncDecl:
			x.Doc = nil
		case *ast.GenDecl:
			x.Doc = nil
		case *ast.TypeSpec:
			x.Doc = nil
			x.Comment = nil
		case *ast.ValueSpec:
			x.Doc = nil
			x.Comment = nil
		case *ast.Field:
			x.Doc = nil
			x.Comment = nil
		case *ast.ImportSpec:
			x.Doc = nil
			x.Comment = nil
		}
		return true
	})
}
