// driver orchestrates a property check: build from /repo's working tree,
// determinism gate, 16 worker processes over disjoint seed ranges, violation
// confirmation by replay in a fresh process, minimisation, known-findings
// filter, evidence file.
//
//	driver check <property> <quick|thorough>
//	driver replay <file>
//	driver selftest            (determinism self-test over all profiles)
//
// Exit codes: 0 held, 1 violation (prints "VIOLATION property=<id> replay=<path>"),
// 2 tool trouble, 3 replay did not reproduce.
package main

import (
	"bufio"
	"bytes"
	"crypto/sha256"
	"encoding/hex"
	"encoding/json"
	"fmt"
	"os"
	"os/exec"
	"path/filepath"
	"runtime"
	"sort"
	"strconv"
	"strings"
	"sync"
	"syscall"
	"time"
)

type Leg struct {
	Profile   string `json:"profile"`
	Quick     int    `json:"quick"`
	Thorough  int    `json:"thorough"`
	QuickS    int    `json:"quick_s"` // wall cap per worker, seconds
	ThoroughS int    `json:"thorough_s"`
	Race      bool   `json:"race,omitempty"`
	RaceCtl   bool   `json:"racectl,omitempty"` // race build in controlled mode: the seeded scheduler picks the interleaving, the race detector judges it
	Dense     string `json:"dense,omitempty"`
}

type Spec struct {
	Level       string   `json:"level"`
	Rule        string   `json:"rule"`
	Legs        []Leg    `json:"legs"`
	Assumptions []string `json:"assumptions"`
	Real        []string `json:"real_components"`
	Stub        []string `json:"stub_components"`
}

type summary struct {
	Profile    string            `json:"profile"`
	Runs       int               `json:"runs"`
	Nontrivial int               `json:"nontrivial"`
	Digests    []string          `json:"digests"`
	Steps      uint64            `json:"steps"`
	FakeNS     int64             `json:"fake_ns"`
	Reasons    map[string]int    `json:"reasons"`
	FaultKinds map[string]int    `json:"fault_kinds"`
	Probes     map[string]int    `json:"probes"`
	Extra      map[string]int    `json:"extra"`
	Leaked     int               `json:"leaked"`
	Samples    []json.RawMessage `json:"samples"`
	WallS      float64           `json:"wall_s"`
	Violations int               `json:"violations"`
	AllDigest  string            `json:"all_digest"`
	Known      map[string]int    `json:"known"`
}

type violation struct {
	Prop   string `json:"prop"`
	Oracle string `json:"oracle"`
	Msg    string `json:"msg"`
	Step   uint64 `json:"step"`
}

type replayFile struct {
	Property  string          `json:"property"`
	Profile   string          `json:"profile"`
	Seed      uint64          `json:"seed"`
	Plan      json.RawMessage `json:"plan"`
	Violation violation       `json:"violation"`
	All       []violation     `json:"all_violations,omitempty"`
	Digest    string          `json:"decisions_digest"`
	Steps     uint64          `json:"n_steps"`
	Minimised bool            `json:"minimised"`
	Note      string          `json:"note,omitempty"`
}

var verif string

func die(code int, format string, a ...any) {
	fmt.Fprintf(os.Stderr, "driver: "+format+"\n", a...)
	os.Exit(code)
}

func env() []string {
	return append(os.Environ(), "GOFLAGS=-mod=mod", "GOPROXY=off", "GOSUMDB=off", "GOTOOLCHAIN=local")
}

func build(scr string, mode string, dense string) {
	cmd := exec.Command(filepath.Join(verif, "build.sh"), scr, mode)
	cmd.Env = env()
	if strings.HasPrefix(dense, "stmt:") {
		cmd.Env = append(cmd.Env, "VERIF_VDENSE="+dense[5:])
	} else if dense != "" {
		cmd.Env = append(cmd.Env, "VERIF_DENSE="+dense)
	}
	cmd.Stdout, cmd.Stderr = os.Stderr, os.Stderr
	if err := cmd.Run(); err != nil {
		die(2, "build failed: %v", err)
	}
}

type workerResult struct {
	sum     *summary
	viols   []replayFile
	crashed bool
	lastRun uint64
	stderr  string
	code    int
}

func runWorker(bin string, args []string, gomaxprocs int, timeout time.Duration) *workerResult {
	// each worker runs under an address-space limit: an allocation bomb in the
	// code under test becomes an "out of memory" crash of that worker (reported
	// with its seed) instead of an OOM kill of the whole check
	sh := "ulimit -v " + memLimitKB() + " 2>/dev/null; exec \"$0\" \"$@\""
	if strings.HasSuffix(bin, "-race") {
		sh = "exec \"$0\" \"$@\"" // the race detector reserves terabytes of address space
	}
	cmd := exec.Command("/bin/sh", append([]string{"-c", sh, bin}, args...)...)
	cmd.Env = append(os.Environ(), "GOMAXPROCS="+strconv.Itoa(gomaxprocs), "GOTRACEBACK=all", "GORACE=halt_on_error=0")
	cmd.Dir = os.TempDir()
	so, _ := cmd.StdoutPipe()
	var se bytes.Buffer
	cmd.Stderr = &se
	res := &workerResult{}
	if err := cmd.Start(); err != nil {
		res.crashed = true
		res.stderr = err.Error()
		return res
	}
	var mu sync.Mutex
	last := time.Now()
	done := make(chan struct{})
	go func() {
		// watchdog: no progress for `timeout` -> dump stacks and kill
		t := time.NewTicker(2 * time.Second)
		defer t.Stop()
		for {
			select {
			case <-done:
				return
			case <-t.C:
				mu.Lock()
				idle := time.Since(last)
				mu.Unlock()
				if idle > timeout {
					cmd.Process.Signal(syscall.SIGUSR1)
					time.Sleep(3 * time.Second)
					cmd.Process.Kill()
					return
				}
			}
		}
	}()
	sc := bufio.NewScanner(so)
	sc.Buffer(make([]byte, 1<<20), 256<<20)
	for sc.Scan() {
		line := sc.Text()
		mu.Lock()
		last = time.Now()
		mu.Unlock()
		switch {
		case strings.HasPrefix(line, "RUN "):
			res.lastRun, _ = strconv.ParseUint(line[4:], 10, 64)
		case strings.HasPrefix(line, "VIOL "):
			var rf replayFile
			if err := json.Unmarshal([]byte(line[5:]), &rf); err == nil {
				res.viols = append(res.viols, rf)
			}
		case strings.HasPrefix(line, "SUMMARY "):
			s := &summary{}
			if err := json.Unmarshal([]byte(line[8:]), s); err == nil {
				res.sum = s
			}
		}
	}
	err := cmd.Wait()
	close(done)
	res.stderr = se.String()
	if err != nil {
		res.code = 1
		if ee, ok := err.(*exec.ExitError); ok {
			res.code = ee.ExitCode()
		}
	}
	if res.sum == nil {
		res.crashed = true
	}
	return res
}

type known struct {
	prop, oracle, match, text string
}

func loadKnown() []known {
	var ks []known
	b, err := os.ReadFile(filepath.Join(verif, "known_findings.txt"))
	if err != nil {
		return nil
	}
	for _, line := range strings.Split(string(b), "\n") {
		line = strings.TrimSpace(line)
		if !strings.HasPrefix(line, "known:") {
			continue
		}
		text := ""
		if i := strings.Index(line, " # "); i >= 0 {
			text = strings.TrimSpace(line[i+3:])
			line = line[:i]
		}
		k := known{text: text}
		for _, f := range strings.Fields(line[6:]) {
			switch {
			case strings.HasPrefix(f, "property="):
				k.prop = f[9:]
			case strings.HasPrefix(f, "oracle="):
				k.oracle = f[7:]
			case strings.HasPrefix(f, "match="):
				k.match = strings.ReplaceAll(f[6:], "_", " ")
			}
		}
		ks = append(ks, k)
	}
	return ks
}

func (k known) matches(v violation) bool {
	return k.prop == v.Prop && k.oracle == v.Oracle && strings.Contains(v.Msg, k.match)
}

func main() {
	if len(os.Args) < 2 {
		die(2, "usage: driver check <prop> <tier> | replay <file> | selftest")
	}
	exe, _ := os.Executable()
	_ = exe
	verif = os.Getenv("VERIF_DIR")
	if verif == "" {
		verif = "/verif"
	}
	switch os.Args[1] {
	case "check":
		if len(os.Args) < 4 {
			die(2, "usage: driver check <prop> <tier>")
		}
		os.Exit(check(os.Args[2], os.Args[3]))
	case "replay":
		os.Exit(replay(os.Args[2]))
	case "selftest":
		os.Exit(selftest())
	}
	die(2, "unknown command %s", os.Args[1])
}

func loadSpecs() map[string]*Spec {
	b, err := os.ReadFile(filepath.Join(verif, "checks.json"))
	if err != nil {
		die(2, "%v", err)
	}
	m := map[string]*Spec{}
	if err := json.Unmarshal(b, &m); err != nil {
		die(2, "checks.json: %v", err)
	}
	return m
}

func scratch() string {
	base := os.Getenv("VERIF_SCRATCH")
	if base == "" {
		base = os.TempDir()
	}
	d, err := os.MkdirTemp(base, "verif-build-")
	if err != nil {
		die(2, "%v", err)
	}
	return d
}

func baseSeed() uint64 {
	s := os.Getenv("VERIF_SEED")
	if s == "" {
		return 1
	}
	v, err := strconv.ParseUint(s, 10, 64)
	if err != nil {
		// hash arbitrary strings
		h := sha256.Sum256([]byte(s))
		for _, b := range h[:8] {
			v = v<<8 | uint64(b)
		}
	}
	return v
}

func nworkers() int {
	n := runtime.NumCPU()
	if n > 16 {
		n = 16
	}
	if n < 1 {
		n = 1
	}
	return n
}

// gate runs the determinism gate: the same seeds in two processes with
// different GOMAXPROCS must produce identical event-log digests.
func gate(bin, profile string, from uint64, n int) error {
	args := []string{"-profile", profile, "-from", fmt.Sprint(from), "-n", fmt.Sprint(n), "-maxviol", "1000000"}
	var rs [2]*workerResult
	var wg sync.WaitGroup
	for i, g := range []int{1, 16} {
		wg.Add(1)
		go func(i, g int) {
			defer wg.Done()
			rs[i] = runWorker(bin, args, g, 120*time.Second)
		}(i, g)
	}
	wg.Wait()
	if rs[0].crashed || rs[1].crashed {
		// a crash is handled by the main run; the gate only compares
		return nil
	}
	if rs[0].sum.AllDigest != rs[1].sum.AllDigest {
		return fmt.Errorf("determinism gate failed for profile %s seeds %d..%d: GOMAXPROCS=1 -> %s, GOMAXPROCS=16 -> %s",
			profile, from, from+uint64(n)-1, rs[0].sum.AllDigest, rs[1].sum.AllDigest)
	}
	return nil
}

func check(prop, tier string) int {
	start := time.Now()
	specs := loadSpecs()
	spec := specs[prop]
	if spec == nil {
		die(2, "no check registered for %s", prop)
	}
	if tier != "quick" && tier != "thorough" {
		die(2, "tier must be quick or thorough")
	}
	scr := scratch()
	defer os.RemoveAll(scr)
	seed := baseSeed()
	knowns := loadKnown()
	W := nworkers()

	agg := &summary{Reasons: map[string]int{}, FaultKinds: map[string]int{}, Probes: map[string]int{}, Extra: map[string]int{}, Known: map[string]int{}}
	digests := map[string]bool{}
	var allViols []replayFile
	var legInfo []map[string]any
	built := map[string]string{}
	for li, leg := range spec.Legs {
		mode := "ctl"
		if leg.Race {
			mode = "race"
		}
		if t := map[bool]int{false: leg.Quick, true: leg.Thorough}[tier == "thorough"]; t <= 0 {
			continue // a leg of the other tier only
		}
		key := mode + "|" + leg.Dense
		bin := built[key]
		if bin == "" {
			sub := filepath.Join(scr, fmt.Sprintf("b%d", len(built)))
			build(sub, mode, leg.Dense)
			bin = filepath.Join(sub, "bin", "simworker")
			if leg.Race {
				bin += "-race"
			}
			built[key] = bin
		}
		total, capS := leg.Quick, leg.QuickS
		if tier == "thorough" {
			total, capS = leg.Thorough, leg.ThoroughS
		}
		if total <= 0 {
			continue
		}
		if capS == 0 {
			capS = 60
		}
		legBase := seed*1000003 + uint64(li)*100000007
		if !leg.Race {
			if err := gate(bin, leg.Profile, legBase, 8); err != nil {
				fmt.Fprintln(os.Stderr, "driver:", err)
				return 2
			}
		}
		per := (total + W - 1) / W
		results := make([]*workerResult, W)
		var wg sync.WaitGroup
		for w := 0; w < W; w++ {
			wg.Add(1)
			go func(w int) {
				defer wg.Done()
				args := []string{"-profile", leg.Profile, "-from", fmt.Sprint(legBase + uint64(w)), "-stride", fmt.Sprint(W),
					"-n", fmt.Sprint(per), "-seconds", fmt.Sprint(capS), "-known", filepath.Join(verif, "known_findings.txt"), "-prop", prop}
				gmp := 1
				if leg.Race {
					// free mode: the Go scheduler interleaves the goroutines, the race
					// detector watches; the oracles of the controlled mode do not apply.
					// racectl: the seeded scheduler interleaves, the detector judges
					// happens-before (the simulator's own synchronisation is hidden from it)
					if leg.RaceCtl {
						gmp = 1
					} else {
						gmp = 4
						args = append(args, "-free")
					}
					for i := range args {
						if args[i] == "-prop" {
							args[i+1] = "__races_only__"
						}
					}
				}
				results[w] = runWorker(bin, args, gmp, 180*time.Second)
			}(w)
		}
		wg.Wait()
		legRuns := 0
		for w, r := range results {
			if r.crashed {
				// confirm the crash by re-running the seed that was in flight
				v := confirmCrash(bin, leg, prop, r, scr)
				if v == nil {
					fmt.Fprintf(os.Stderr, "driver: worker %d of leg %s ended without a summary (exit %d) and the seed %d does not crash again:\n%s\n",
						w, leg.Profile, r.code, r.lastRun, tail(r.stderr, 60))
					return 2
				}
				allViols = append(allViols, *v)
				continue
			}
			s := r.sum
			if leg.Race {
				for _, rc := range parseRaces(r.stderr) {
					agg.Extra["data_race_reports"]++
					plan := json.RawMessage(`{"note":"race reports of the free mode are reproduced statistically: run the -race worker in free mode over the seed range of the evidence file"}`)
					seedOf := r.lastRun
					if leg.RaceCtl {
						// controlled mode: the report belongs to the seed that was running and replays
						seedOf = rc.seed
						if out, err := exec.Command(bin, "-profile", leg.Profile, "-from", fmt.Sprint(rc.seed), "-plan").Output(); err == nil {
							plan = json.RawMessage(out)
						}
					}
					allViols = append(allViols, replayFile{Property: prop, Profile: leg.Profile, Seed: seedOf, Plan: plan,
						Violation: violation{Prop: prop, Oracle: "data-race", Msg: rc.msg}})
				}
			}
			legRuns += s.Runs
			agg.Runs += s.Runs
			agg.Nontrivial += s.Nontrivial
			agg.Steps += s.Steps
			agg.FakeNS += s.FakeNS
			agg.Leaked += s.Leaked
			for k, v := range s.Reasons {
				agg.Reasons[k] += v
			}
			for k, v := range s.FaultKinds {
				agg.FaultKinds[k] += v
			}
			for k, v := range s.Probes {
				agg.Probes[k] += v
			}
			for k, v := range s.Extra {
				agg.Extra[k] += v
			}
			for k, v := range s.Known {
				agg.Known[k] += v
			}
			for _, d := range s.Digests {
				digests[leg.Profile+d] = true
			}
			if len(agg.Samples) < 3 {
				agg.Samples = append(agg.Samples, s.Samples...)
			}
			allViols = append(allViols, r.viols...)
		}
		legInfo = append(legInfo, map[string]any{"profile": leg.Profile, "runs": legRuns, "first_seed": legBase, "stride": W, "race": leg.Race})
	}

	// classify violations: known findings vs new
	var fresh []replayFile
	knownHit := map[string]known{}
	for _, v := range allViols {
		var newOnes []violation
		for _, x := range append([]violation{v.Violation}, v.All...) {
			isKnown := false
			for _, k := range knowns {
				if k.matches(x) {
					knownHit[k.prop+" "+k.oracle+" "+k.match] = k
					isKnown = true
				}
			}
			if !isKnown {
				newOnes = append(newOnes, x)
			}
		}
		if len(newOnes) > 0 {
			v.Violation = newOnes[0]
			fresh = append(fresh, v)
		}
	}
	for k := range agg.Known {
		for _, kn := range knowns {
			if kn.prop+" "+kn.oracle+" "+kn.match == k {
				knownHit[k] = kn
			}
		}
	}
	exit := 0
	var replayPath string
	var reported *replayFile
	if len(fresh) > 0 {
		// prefer violations of the property under check
		sort.SliceStable(fresh, func(i, j int) bool {
			return (fresh[i].Violation.Prop == prop) && !(fresh[j].Violation.Prop == prop)
		})
		v := fresh[0]
		reported = &v
		leg := spec.Legs[0]
		for _, l := range spec.Legs {
			if l.Profile == v.Profile {
				leg = l
			}
		}
		mode := "ctl"
		if leg.Race {
			mode = "race"
		}
		bin := built[mode+"|"+leg.Dense]
		replayPath = writeReplay(bin, &v, tier, scr, leg.Race)
		exit = 1
	}
	// evidence
	names := make([]string, 0, len(knownHit))
	for k := range knownHit {
		names = append(names, k)
	}
	sort.Strings(names)
	for _, k := range names {
		kn := knownHit[k]
		fmt.Printf("KNOWN-FINDING: property=%s %s\n", kn.prop, kn.text)
	}
	wall := time.Since(start).Seconds()
	writeEvidence(prop, tier, seed, spec, agg, len(digests), legInfo, wall, len(fresh), names)
	fmt.Fprintf(os.Stderr, "driver: %s %s: %d runs, %d distinct non-trivial, %d violating runs (%d new), %.1fs\n",
		prop, tier, agg.Runs, len(digests), len(allViols), len(fresh), wall)
	if exit == 1 {
		fmt.Printf("VIOLATION property=%s replay=%s\n", reported.Violation.Prop, replayPath)
		fmt.Printf("  oracle=%s seed=%d msg=%s\n", reported.Violation.Oracle, reported.Seed, reported.Violation.Msg)
	}
	return exit
}

// parseRaces extracts the race reports whose two accesses are both in code of
// tsuna/gohbase (not in the simulator or the harness).
type raceReport struct {
	msg  string
	seed uint64
}

func parseRaces(stderr string) []raceReport {
	var out []raceReport
	seen := map[string]bool{}
	var cur uint64
	blocks := strings.Split(stderr, "WARNING: DATA RACE")
	seedIn := func(b string) {
		for _, l := range strings.Split(b, "\n") {
			if strings.HasPrefix(l, "RUN ") {
				cur, _ = strconv.ParseUint(strings.TrimSpace(l[4:]), 10, 64)
			}
		}
	}
	seedIn(blocks[0])
	for _, whole := range blocks[1:] {
		b := whole
		if i := strings.Index(b, "=================="); i >= 0 {
			b = b[:i]
		}
		// the owner of an access is the innermost frame that belongs to the code
		// under test or to the harness; the simulator is entered through
		// gosim/seam.Enter, whose frame then comes first and marks the access as
		// the harness's
		var tops []string
		lines := strings.Split(b, "\n")
		for i, l := range lines {
			if strings.Contains(l, " at 0x") && strings.Contains(l, "by goroutine") {
				owner := ""
				skipConn := false
				for _, f := range lines[i+1:] {
					f = strings.TrimSpace(f)
					if f == "" {
						break
					}
					if strings.HasPrefix(f, "/") || strings.HasPrefix(f, "<autogenerated>") {
						continue // file:line of the frame above
					}
					// the runtime, the standard library and third-party packages
					// act on behalf of whoever called them: walk down to the first
					// frame of the code under test or of the harness
					if strings.HasPrefix(f, "gosim/seam.ReadBuf") || strings.HasPrefix(f, "gosim/seam.WriteBuf") {
						// the access conn.Write / conn.Read makes to the caller's buffer is
						// the caller's: skip the annotation and the method it is made from
						skipConn = true
						continue
					}
					if skipConn && strings.HasPrefix(f, "gosim/sim.(*Conn).") {
						continue
					}
					if strings.HasPrefix(f, "github.com/tsuna/gohbase") || strings.HasPrefix(f, "gosim/") {
						owner = f
						break
					}
				}
				tops = append(tops, owner)
			}
		}
		inRepo := func(f string) bool {
			return strings.HasPrefix(f, "github.com/tsuna/gohbase") && !strings.Contains(f, "verifsimrt")
		}
		if len(tops) >= 2 && inRepo(tops[0]) && inRepo(tops[1]) {
			msg := "data race between " + tops[0] + " and " + tops[1]
			if !seen[msg] {
				seen[msg] = true
				out = append(out, raceReport{msg, cur})
			}
		}
		seedIn(whole)
	}
	return out
}

func memLimitKB() string {
	if v := os.Getenv("VERIF_WORKER_MEM_KB"); v != "" {
		return v
	}
	return "6000000"
}

func tail(s string, n int) string {
	ls := strings.Split(s, "\n")
	if len(ls) > n {
		ls = ls[len(ls)-n:]
	}
	return strings.Join(ls, "\n")
}

func headLines(s string, n int) string {
	ls := strings.Split(s, "\n")
	if len(ls) > n {
		ls = ls[:n]
	}
	return strings.Join(ls, "\n")
}

// confirmCrash re-runs the seed a crashed worker was executing.
func confirmCrash(bin string, leg Leg, prop string, r *workerResult, scr string) *replayFile {
	if r.lastRun == 0 {
		return nil
	}
	args := []string{"-profile", leg.Profile, "-from", fmt.Sprint(r.lastRun), "-n", "1"}
	rr := runWorker(bin, args, 1, 120*time.Second)
	if !rr.crashed {
		return nil
	}
	// fetch the plan
	out, err := exec.Command(bin, "-profile", leg.Profile, "-from", fmt.Sprint(r.lastRun), "-plan").Output()
	if err != nil {
		return nil
	}
	msg := panicLine(rr.stderr)
	return &replayFile{Property: prop, Profile: leg.Profile, Seed: r.lastRun, Plan: json.RawMessage(out),
		Violation: violation{Prop: prop, Oracle: "panic", Msg: msg}}
}

func panicLine(stderr string) string {
	for _, l := range strings.Split(stderr, "\n") {
		if strings.HasPrefix(l, "panic:") || strings.HasPrefix(l, "fatal error:") || strings.HasPrefix(l, "runtime: out of memory") {
			return l
		}
	}
	return headLines(stderr, 3)
}

func writeReplay(bin string, v *replayFile, tier, scr string, race bool) string {
	dir := filepath.Join(verif, "replays")
	os.MkdirAll(dir, 0o755)
	path := filepath.Join(dir, fmt.Sprintf("%s-%s-%d.json", v.Violation.Prop, v.Profile, v.Seed))
	b, _ := json.MarshalIndent(v, "", " ")
	tmp := filepath.Join(scr, "viol.json")
	os.WriteFile(tmp, b, 0o644)
	os.WriteFile(path, b, 0o644)
	if race || v.Violation.Oracle == "panic" {
		return path
	}
	// confirm in a fresh process
	rr := exec.Command(bin, "-replay", tmp)
	out, _ := rr.CombinedOutput()
	if rr.ProcessState.ExitCode() != 1 {
		fmt.Fprintf(os.Stderr, "driver: violation of seed %d did not reproduce in a fresh process:\n%s\n", v.Seed, tail(string(out), 5))
		os.Exit(2)
	}
	budget := "45"
	if tier == "thorough" {
		budget = "300"
	}
	mp := filepath.Join(scr, "min.json")
	mc := exec.Command(bin, "-minimise", tmp, "-out", mp, "-budget", budget)
	mc.Stderr = os.Stderr
	if o, err := mc.Output(); err == nil {
		if mb, err := os.ReadFile(mp); err == nil {
			// the minimised file must itself replay
			chk := exec.Command(bin, "-replay", mp)
			chk.Run()
			if chk.ProcessState.ExitCode() == 1 {
				os.WriteFile(path, mb, 0o644)
				fmt.Fprint(os.Stderr, "driver: "+lastLine(string(o))+"\n")
			}
		}
	}
	return path
}

func lastLine(s string) string {
	ls := strings.Split(strings.TrimSpace(s), "\n")
	return ls[len(ls)-1]
}

func writeEvidence(prop, tier string, seed uint64, spec *Spec, agg *summary, distinct int, legs []map[string]any, wall float64, nviol int, known []string) {
	zero := []string{}
	for k, v := range agg.Probes {
		if v == 0 {
			zero = append(zero, k)
		}
	}
	var samples []any
	for _, s := range agg.Samples {
		var x any
		json.Unmarshal(s, &x)
		samples = append(samples, x)
	}
	if len(samples) == 0 {
		samples = append(samples, "no non-trivial run in this batch")
	}
	runsPerHour := 0.0
	if wall > 0 {
		runsPerHour = float64(agg.Runs) / wall * 3600
	}
	cov := map[string]any{
		"evaluations":                 agg.Runs,
		"distinct_nontrivial":         distinct,
		"rule":                        spec.Rule,
		"samples":                     samples,
		"runs_per_hour":               int(runsPerHour),
		"seeds_per_hour":              int(runsPerHour),
		"simulated_time_s":            float64(agg.FakeNS) / 1e9,
		"scheduler_steps":             agg.Steps,
		"nontrivial_runs":             agg.Nontrivial,
		"distinct_interleavings":      distinct,
		"interleaving_measure":        "distinct SHA-256 digests of the full event log (every scheduler decision, wire write, delivery, fault) among non-trivial runs",
		"fault_kinds_fired":           agg.FaultKinds,
		"probes_hit":                  agg.Probes,
		"probes_at_zero":              zero,
		"end_reasons":                 agg.Reasons,
		"legs":                        legs,
		"real_components":             spec.Real,
		"stub_components":             spec.Stub,
		"known_findings_matched":      known,
		"runs_with_leaked_goroutines": agg.Leaked,
		"extra":                       agg.Extra,
	}
	ev := map[string]any{
		"property_id": prop,
		"tier":        tier,
		"seed":        seed,
		"level":       spec.Level,
		"coverage":    cov,
		"assumptions": spec.Assumptions,
		"wall_s":      wall,
		"violations":  nviol,
	}
	b, _ := json.MarshalIndent(ev, "", " ")
	dir := filepath.Join(verif, "evidence")
	os.MkdirAll(dir, 0o755)
	if err := os.WriteFile(filepath.Join(dir, prop+".json"), b, 0o644); err != nil {
		die(2, "%v", err)
	}
}

func replay(path string) int {
	b, err := os.ReadFile(path)
	if err != nil {
		die(2, "%v", err)
	}
	var rf replayFile
	if err := json.Unmarshal(b, &rf); err != nil {
		die(2, "bad replay file: %v", err)
	}
	scr := scratch()
	defer os.RemoveAll(scr)
	if rf.Violation.Oracle == "data-race" {
		if !bytes.Contains(rf.Plan, []byte(`"tasks"`)) {
			fmt.Println("replay: a race report of the free mode has no schedule to replay; re-run the check")
			return 3
		}
		// controlled mode under the race detector: same plan, same schedule, same report
		build(scr, "race", "")
		cmd := exec.Command(filepath.Join(scr, "bin", "simworker-race"), "-replay", path)
		cmd.Env = append(os.Environ(), "GOMAXPROCS=1", "GORACE=halt_on_error=0")
		var se bytes.Buffer
		cmd.Stderr = &se
		cmd.Run()
		for _, rc := range parseRaces(se.String()) {
			fmt.Printf("%s\nVIOLATION property=%s replay=%s\n", rc.msg, rf.Violation.Prop, path)
			return 1
		}
		fmt.Println("replay: no race between two accesses of tsuna/gohbase code was reported")
		return 3
	}
	build(scr, "ctl", os.Getenv("VERIF_DENSE"))
	bin := filepath.Join(scr, "bin", "simworker")
	cmd := exec.Command(bin, "-replay", path)
	var se bytes.Buffer
	cmd.Stderr = &se
	out, _ := cmd.Output()
	code := cmd.ProcessState.ExitCode()
	if rf.Violation.Oracle == "panic" {
		if code != 0 && code != 1 && code != 3 {
			fmt.Printf("VIOLATION property=%s replay=%s\n  %s\n", rf.Violation.Prop, path, panicLine(se.String()))
			return 1
		}
		fmt.Println("replay: the run did not crash")
		return 3
	}
	fmt.Print(tail(string(out), 3))
	switch code {
	case 1:
		fmt.Printf("\nVIOLATION property=%s replay=%s\n", rf.Violation.Prop, path)
		return 1
	case 3:
		return 3
	}
	fmt.Fprintln(os.Stderr, tail(se.String(), 30))
	return 2
}

func selftest() int {
	specs := loadSpecs()
	scr := scratch()
	defer os.RemoveAll(scr)
	build(scr, "ctl", "")
	bin := filepath.Join(scr, "bin", "simworker")
	seen := map[string]bool{}
	n := 20
	if v := os.Getenv("VERIF_SELFTEST_N"); v != "" {
		n, _ = strconv.Atoi(v)
	}
	var props []string
	for p := range specs {
		props = append(props, p)
	}
	sort.Strings(props)
	for _, p := range props {
		for _, leg := range specs[p].Legs {
			if leg.Race || leg.Dense != "" || seen[leg.Profile] {
				continue
			}
			seen[leg.Profile] = true
			args := []string{"-profile", leg.Profile, "-from", "900001", "-n", fmt.Sprint(n), "-maxviol", "1000000"}
			var sums []string
			for _, g := range []int{1, 4, 16} {
				r := runWorker(bin, args, g, 300*time.Second)
				if r.crashed {
					fmt.Fprintf(os.Stderr, "selftest: profile %s crashed:\n%s\n", leg.Profile, tail(r.stderr, 30))
					return 2
				}
				sums = append(sums, r.sum.AllDigest)
			}
			if sums[0] != sums[1] || sums[1] != sums[2] {
				fmt.Fprintf(os.Stderr, "selftest: profile %s is not deterministic across GOMAXPROCS 1/4/16: %v\n", leg.Profile, sums)
				return 2
			}
			fmt.Printf("selftest: %-10s %d seeds x 3 processes identical (%s)\n", leg.Profile, n, sums[0])
		}
	}
	return 0
}

var _ = hex.EncodeToString
