#!/bin/bash
# Regenerates /verif/seeded/revert-<commit>/patch.diff for every "fix:" commit of /repo so that each applies to /repo HEAD.
set -u
WT=$(mktemp -d /tmp/vrev-XXXX); rmdir $WT
git -C /repo worktree add -q --detach $WT HEAD || exit 2
trap 'git -C /repo worktree remove --force $WT 2>/dev/null; rm -rf $WT' EXIT
cd $WT
for h in $(git log --format=%h --grep='^fix:' ); do
  git checkout -q -- . ; git clean -qfd
  if git revert --no-commit $h >/dev/null 2>&1; then
    d=/verif/seeded/revert-$h; mkdir -p $d
    git diff HEAD > $d/patch.diff
    git revert --abort 2>/dev/null || git reset -q --hard HEAD
    subj=$(git log -1 --format=%s $h)
    prop=$(grep -h "^fixed: property=C[0-9]* $h" /verif/known_findings.txt | sed 's/fixed: property=\(C[0-9]*\).*/\1/' | head -1)
    python3 - "$h" "${prop:-?}" "$d" "$subj" <<'PY'
import json,sys
h,p,d,subj=sys.argv[1:5]
json.dump({"property":p,"summary":"reverts the repair '%s' (%s): re-introduces the genuine defect the check found"%(subj,h),"needs":"see the commit message of %s"%h,"kind":"revert-of-fix","confirmed":{"how":"tools/seedtest.sh <this patch> <profile>: the check of %s reports violations with the fix reverted and none with it; patch regenerated against /repo HEAD with git revert --no-commit"%p}},open(d+'/meta.json','w'),indent=1)
PY
    echo "ok $h $prop"
  else
    git revert --abort 2>/dev/null; git reset -q --hard HEAD
    echo "CONFLICT $h: revert does not apply cleanly to HEAD (later fixes build on it)"
  fi
done
