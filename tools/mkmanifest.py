#!/usr/bin/env python3
# Generates MANIFEST.json from checks.json (claimed checks) and na.json (reasons for unclaimed properties).
import json
props=[json.loads(l) for l in open('/verif/properties.jsonl')]
checks=json.load(open('/verif/checks.json'))
na=json.load(open('/verif/na.json'))
out=[]
for p in props:
    i=p['id']
    if i in checks:
        c=checks[i]
        out.append({"property_id":i,
          "quick_cmd":"./run.sh check %s quick"%i,
          "thorough_cmd":"./run.sh check %s thorough"%i,
          "evidence_file":"/verif/evidence/%s.json"%i,
          "replay_cmd_template":"./run.sh replay {path}",
          "engine":"gosim",
          "level_claimed":{"category":c["level"],"text":c["claim"],"design_ref":c.get("design_ref","DESIGN.md §6 "+i)},
          "level_note":c.get("note","sampled (seeded search), not exhaustive; real client code with go/ast-inserted scheduling points and cooperative lock types; network, ZooKeeper and the HBase cluster are stubs written from the protocol specification (wire decoder independent of region/ and hrpc/, protobuf via the repository's pb package)"),
          "technique":c.get("technique","deterministic simulation with fault injection: seeded scheduler over goroutine/network/time choices, simulated net.Conn + ZooKeeper + HBase cluster model, oracles over the recorded history")})
nas=[]
for p in props:
    i=p['id']
    if i not in checks:
        nas.append({"property_id":i,"reason":na.get(i,"check under construction in this round (not yet registered)")})
m={"version":1,"setup_cmd":"./run.sh setup",
 "hooks":{"guard":"verif","enable":"go build -tags verif -overlay <json>: /verif/hooks/verif_hooks.go is mapped into /repo (package gohbase), scheduling-point instrumented copies of /repo's working-tree files are mapped over the originals, /verif/simrt is mapped to github.com/tsuna/gohbase/verifsimrt, 4 Go runtime files are overlaid (select order, map seed/iteration, hash keys, bubble entry points). Nothing is committed in /repo for hooks.",
  "baseline_off_cmd":"cd /repo && go build ./... && go test -vet=off -count=1 ./...","source_commits":[],"add_only":True},
 "engines":[{"name":"gosim","path":"/verif/gosim","serves_properties":sorted(checks.keys()),"kind_free_text":"deterministic simulator: synctest fake clock, token scheduler over go/ast-inserted scheduling points with cooperative locks, simulated net.Conn/ZooKeeper/HBase cluster, seeded fault scripts, replay + minimisation"}],
 "checks":out,"not_applicable":nas,
 "notes":"see DESIGN.md; known_findings.txt lists repaired (fixed:) and recorded (known:) genuine defects; seeded/ holds confirmed property-breaking changes used to test the checks"}
json.dump(m,open('/verif/MANIFEST.json','w'),indent=1)
print("claimed:",sorted(checks.keys()))
