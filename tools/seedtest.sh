#!/bin/bash
# seedtest.sh <patch-file|-R:commit> <profile> <n> [from]  -- apply a seeded patch to /repo, build, undo, run a profile
set -u
P="$1"; PROF="$2"; N="${3:-2000}"; FROM="${4:-1}"
S=$(mktemp -d /tmp/seedtest-XXXX)
# the change is applied to a scratch worktree of /repo HEAD (VERIF_REPO), so that /repo itself - which
# background runs build from - is never touched
WT=$(mktemp -d /tmp/seedwt-XXXX); rmdir $WT
git -C /repo worktree add -q --detach $WT HEAD || exit 2
trap 'git -C /repo worktree remove --force $WT 2>/dev/null; rm -rf $WT $S' EXIT
cd $WT || exit 2
if [[ "$P" == -R:* ]]; then git show "${P#-R:}" | git apply -R || { echo "cannot revert"; exit 2; }
else git apply "$P" || { echo "patch does not apply"; exit 2; }; fi
VERIF_REPO=$WT /verif/build.sh "$S" ${RACE:+race} > "$S/build.log" 2>&1; rc=$?
[ $rc -ne 0 ] && { cat "$S/build.log"; exit 2; }
if [ -n "${RACE:-}" ]; then
  # free -race mode: count race reports whose two accesses are both in tsuna/gohbase code
  cd /tmp; W=${W:-8}
  for w in $(seq 0 $((W-1))); do
    ( GOMAXPROCS=4 "$S/bin/simworker-race" ${RACECTL:--free} -profile "$PROF" -from $((FROM+w)) -stride $W -n $((N/W)) -prop __races_only__ > "$S/out.$w" 2> "$S/err.$w" ) &
  done
  wait
  runs=$(cat "$S"/out.* | grep SUMMARY | cut -c9- | jq -s 'map(.runs)|add')
  races=$(cat "$S"/err.* | awk 'function own(   f,r,sk){ r=""; sk=0; while ((getline f) > 0) { sub(/^[ \t]+/,"",f); if (f=="") break; if (f ~ /^gosim\/seam\.(ReadBuf|WriteBuf)/) {sk=1; continue} if (sk && f ~ /^gosim\/sim\.\(\*Conn\)\./) continue; if (r=="" && (f ~ /^github.com\/tsuna\/gohbase/ || f ~ /^gosim\//)) r=f } return r } /^WARNING: DATA RACE/{inr=1;n=0;ok=1;next} inr&&/ by goroutine /{f=own(); n++; if (f !~ /^github.com\/tsuna\/gohbase[.\/(]/ || f ~ /verifsimrt/) ok=0; if(n==2){ if(ok) c++; inr=0 } } END{print c+0}')
  echo "{\"runs\":$runs,\"nontrivial\":null,\"violations\":$races}"
  cat "$S"/err.* | grep -A3 -m1 "^WARNING: DATA RACE" | tail -2 | tr -s ' \n' ' ' | sed 's/^/seed ? C09 data-race: /' | cut -c1-200
  exit 0
fi
cd /tmp
W=${W:-8}
for w in $(seq 0 $((W-1))); do
  ( ulimit -v 6000000; "$S/bin/simworker" -profile "$PROF" -from $((FROM+w)) -stride $W -n $((N/W)) -maxviol 5 -known /verif/known_findings.txt ${PROP:+-prop $PROP} > "$S/out.$w" 2> "$S/err.$w" ) &
done
wait
cat "$S"/out.* | grep SUMMARY | cut -c9- | jq -s -c '{runs:(map(.runs)|add),nontrivial:(map(.nontrivial)|add),violations:(map(.violations)|add)}'
cat "$S"/out.* | grep ^VIOL | cut -c6- | jq -r '"seed "+(.seed|tostring)+" "+.violation.prop+" "+.violation.oracle+": "+.violation.msg' | cut -c1-260 | head -${SHOW:-4}
for w in $(seq 0 $((W-1))); do grep -q SUMMARY "$S/out.$w" || { echo "worker $w crashed:"; grep -m3 -E "^panic|^fatal|goroutine .*running" "$S/err.$w"; tail -1 "$S/out.$w"; }; done
rm -rf "$S"
