#!/bin/bash
# seedtest.sh <patch-file|-R:commit> <profile> <n> [from]  -- apply a seeded patch to /repo, build, undo, run a profile
set -u
P="$1"; PROF="$2"; N="${3:-2000}"; FROM="${4:-1}"
S=$(mktemp -d /tmp/seedtest-XXXX)
cd /repo || exit 2
if [[ "$P" == -R:* ]]; then git show "${P#-R:}" | git apply -R || { echo "cannot revert"; exit 2; }
else git apply "$P" || { echo "patch does not apply"; exit 2; }; fi
/verif/build.sh "$S" > "$S/build.log" 2>&1; rc=$?
git -C /repo checkout -- . 
[ $rc -ne 0 ] && { cat "$S/build.log"; rm -rf "$S"; exit 2; }
cd /tmp
W=${W:-8}
for w in $(seq 0 $((W-1))); do
  ( "$S/bin/simworker" -profile "$PROF" -from $((FROM+w)) -stride $W -n $((N/W)) -maxviol 5 ${PROP:+-prop $PROP} > "$S/out.$w" 2> "$S/err.$w" ) &
done
wait
cat "$S"/out.* | grep SUMMARY | cut -c9- | jq -s -c '{runs:(map(.runs)|add),nontrivial:(map(.nontrivial)|add),violations:(map(.violations)|add)}'
cat "$S"/out.* | grep ^VIOL | cut -c6- | jq -r '"seed "+(.seed|tostring)+" "+.violation.prop+" "+.violation.oracle+": "+.violation.msg' | cut -c1-260 | head -${SHOW:-4}
for w in $(seq 0 $((W-1))); do grep -q SUMMARY "$S/out.$w" || { echo "worker $w crashed:"; grep -m3 -E "^panic|^fatal|goroutine .*running" "$S/err.$w"; tail -1 "$S/out.$w"; }; done
rm -rf "$S"
