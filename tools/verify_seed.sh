#!/bin/bash
# verify_seed.sh <id> : confirm a seeded change from /tmp/seedout/<id> in a scratch worktree of /repo HEAD
# and store it as /verif/seeded/<id>/ (patch.diff, demo test, meta.json)
set -u
ID="$1"; SRC=/tmp/seedout/$ID
export GOFLAGS=-mod=mod GOPROXY=off GOSUMDB=off
WT=$(mktemp -d /tmp/vseed-XXXX); rmdir $WT
git -C /repo worktree add -q --detach $WT HEAD || exit 2
cleanup() { git -C /repo worktree remove --force $WT 2>/dev/null; rm -rf $WT; }
trap cleanup EXIT
cd $WT
DEMO=$(cat $SRC/demo_path.txt | tr -d '\n ')
DEMOFILE=$(ls $SRC/*_test.go | head -1)
git apply $SRC/patch.diff || { echo "$ID: patch does not apply to HEAD"; exit 1; }
go build ./... || { echo "$ID: does not build"; exit 1; }
suite=$(go test -vet=off -count=1 ./... 2>&1 | grep -E "^(FAIL|---|ok|panic)" | grep -v "^ok" | head -5)
[ -n "$suite" ] && { echo "$ID: existing suite fails with the change: $suite"; exit 1; }
cp $DEMOFILE $WT/$DEMO
PKG=./$(dirname $DEMO)
TESTS=$(grep -oE "^func (Test[A-Za-z0-9_]+)" $DEMOFILE | awk '{print $2}' | paste -sd'|')
with=$(CGO_ENABLED=${RACE:-0} go test ${RACE:+-race} -vet=off -count=1 -run "^($TESTS)\$" $PKG 2>&1 | tail -3)
echo "$with" | grep -q "^ok" && { echo "$ID: demo PASSES with the change (expected failure)"; exit 1; }
git apply -R $SRC/patch.diff
without=$(CGO_ENABLED=${RACE:-0} go test ${RACE:+-race} -vet=off -count=1 -run "^($TESTS)\$" $PKG 2>&1 | tail -3)
echo "$without" | grep -q "^ok" || { echo "$ID: demo FAILS without the change: $without"; exit 1; }
mkdir -p /verif/seeded/$ID
cp $SRC/patch.diff /verif/seeded/$ID/patch.diff
cp $DEMOFILE /verif/seeded/$ID/
python3 - "$ID" "$DEMO" "$TESTS" <<'PY'
import json,sys
id,demo,tests=sys.argv[1:4]
m=json.load(open('/tmp/seedout/%s/meta.json'%id))
m['demo_path']=demo
m['demo_tests']=tests
m['confirmed']={"base":"/repo HEAD at confirmation time (includes the fix: commits)","suite_with_change":"pass","demo_with_change":"fail","demo_without_change":"pass","how":"tools/verify_seed.sh in a scratch worktree"}
json.dump(m,open('/verif/seeded/%s/meta.json'%id,'w'),indent=1)
PY
echo "$ID: confirmed"
