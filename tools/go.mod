module veriftools

go 1.26
