#!/bin/bash
# runs the thorough tier of every registered check, one after the other; prints one line per check
cd "$(dirname "$0")/.."
for p in ${@:-$(jq -r "keys[]" checks.json)}; do
  start=$(date +%s)
  out=$(./run.sh check $p thorough 2>&1 | grep -a "VIOLATION\|KNOWN-FINDING\|driver:\|oracle=" | cut -c1-400)
  echo "== $p ($(( $(date +%s) - start ))s)"; echo "$out"
done
