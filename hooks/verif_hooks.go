//go:build verif

// Hooks for the deterministic simulator in /verif. This file is not part of
// tsuna/gohbase: it is mapped into the package by `go build -overlay` and is
// compiled only with the build tag "verif". It only adds code.

package gohbase

import (
	"context"
	"io"
	"time"

	"github.com/tsuna/gohbase/hrpc"
	"github.com/tsuna/gohbase/zk"
	"modernc.org/b/v2"

	"github.com/tsuna/gohbase/region"
	"log/slog"
)

// VerifNewClient is NewClient with an injected ZooKeeper client (H1).
func VerifNewClient(zkc zk.Client, options ...Option) Client {
	c := newClient("sim-zk", options...)
	c.zkClient = zkc
	return c
}

// VerifNewAdminClient is NewAdminClient with an injected ZooKeeper client.
func VerifNewAdminClient(zkc zk.Client, options ...Option) AdminClient {
	ac := newAdminClient("sim-zk", options...)
	ac.(*client).zkClient = zkc
	return ac
}

// VerifCloseAdmin closes an admin client (AdminClient has no Close method).
func VerifCloseAdmin(ac AdminClient) {
	// newAdminClient leaves the done channel nil and AdminClient exposes no
	// Close, so only the connection to the master is closed here
	c := ac.(*client)
	if rc := c.adminRegionInfo.Client(); rc != nil {
		rc.Close()
	}
}

// VerifRegion is a read-only view of one cached region (H2).
type VerifRegion struct {
	Name        string
	Table       string // fully qualified
	Start, Stop string
	ID          uint64
	Dead        bool
	Unavailable bool
	ClientAddr  string // "" if no client is set
	Ptr         hrpc.RegionInfo
}

// VerifConn is a read-only view of one entry of the connection cache.
type VerifConn struct {
	Addr    string
	Regions []string // region names, unordered
	Ptr     hrpc.RegionClient
}

// VerifState is a snapshot of both caches.
type VerifState struct {
	Regions []VerifRegion // in tree order
	Conns   []VerifConn   // unordered
	Closed  bool
}

func verifRegion(r hrpc.RegionInfo) VerifRegion {
	v := verifRegionLight(r)
	v.Dead = r.Context().Err() != nil
	return v
}

// verifRegionLight describes a region without asking for its context (Dead is
// left false): a harness that wants to leave the first Context() call of a
// region to the code under test uses it.
func verifRegionLight(r hrpc.RegionInfo) VerifRegion {
	v := VerifRegion{
		Name:        string(r.Name()),
		Table:       string(fullyQualifiedTable(r)),
		Start:       string(r.StartKey()),
		Stop:        string(r.StopKey()),
		ID:          r.ID(),
		Unavailable: r.IsUnavailable(),
		Ptr:         r,
	}
	if c := r.Client(); c != nil {
		v.ClientAddr = c.Addr()
	}
	return v
}

// VerifSnapshot returns the contents of the client's caches. It never blocks:
// ok is false if one of the cache locks is held at the moment.
func VerifSnapshot(cl any) (st VerifState, ok bool) {
	c := cl.(*client)
	select {
	case <-c.done:
		st.Closed = true
	default:
	}
	if c.regions.regions != nil {
		if !c.regions.m.TryRLock() {
			return st, false
		}
		if enum, err := c.regions.regions.SeekFirst(); err == nil {
			for {
				_, v, err := enum.Next()
				if err == io.EOF {
					break
				}
				st.Regions = append(st.Regions, verifRegion(v))
			}
			enum.Close()
		}
		c.regions.m.RUnlock()
	}
	if c.clients.regions != nil {
		if !c.clients.m.TryRLock() {
			return st, false
		}
		for rc, regs := range c.clients.regions {
			vc := VerifConn{Addr: rc.Addr(), Ptr: rc}
			for r := range regs {
				vc.Regions = append(vc.Regions, string(r.Name()))
			}
			st.Conns = append(st.Conns, vc)
		}
		c.clients.m.RUnlock()
	}
	return st, true
}

// VerifSpecialRegions returns the meta / admin pseudo regions of a client.
func VerifSpecialRegions(cl any) (meta, admin hrpc.RegionInfo) {
	c := cl.(*client)
	return c.metaRegionInfo, c.adminRegionInfo
}

// VerifLookupCache is getRegionFromCache.
func VerifLookupCache(cl any, table, key []byte) hrpc.RegionInfo {
	return cl.(*client).getRegionFromCache(table, key)
}

// VerifBackoff is sleepAndIncreaseBackoff.
func VerifBackoff(ctx context.Context, d time.Duration) (time.Duration, error) {
	return sleepAndIncreaseBackoff(ctx, d)
}

// VerifRegionCache wraps a fresh keyRegionCache for the C08 history check.
type VerifRegionCache struct {
	krc keyRegionCache
}

// VerifNewRegionCache returns an empty region cache.
func VerifNewRegionCache() *VerifRegionCache {
	lg := slog.New(slog.NewTextHandler(io.Discard, nil))
	return &VerifRegionCache{krc: keyRegionCache{
		logger:  lg,
		regions: b.TreeNew[[]byte, hrpc.RegionInfo](region.Compare),
	}}
}

// Put is keyRegionCache.put.
func (v *VerifRegionCache) Put(r hrpc.RegionInfo) ([]hrpc.RegionInfo, bool) { return v.krc.put(r) }

// Del is keyRegionCache.del.
func (v *VerifRegionCache) Del(r hrpc.RegionInfo) bool { return v.krc.del(r) }

// Get is keyRegionCache.get followed by the checks of getRegionFromCache.
func (v *VerifRegionCache) Get(table, key []byte) hrpc.RegionInfo {
	c := &client{clientType: region.RegionClient}
	c.regions.regions = v.krc.regions
	c.regions.logger = v.krc.logger
	// share the tree, take the lock of the wrapped cache around the lookup
	v.krc.m.RLock()
	defer v.krc.m.RUnlock()
	return c.getRegionFromCache(table, key)
}

// Snapshot returns the cached regions in tree order.
func (v *VerifRegionCache) Snapshot() []VerifRegion { return v.snapshot(verifRegion) }

// SnapshotLight is Snapshot without the dead marks (no Context() call).
func (v *VerifRegionCache) SnapshotLight() []VerifRegion { return v.snapshot(verifRegionLight) }

func (v *VerifRegionCache) snapshot(verifRegion func(hrpc.RegionInfo) VerifRegion) []VerifRegion {
	var out []VerifRegion
	v.krc.m.RLock()
	defer v.krc.m.RUnlock()
	enum, err := v.krc.regions.SeekFirst()
	if err != nil {
		return nil
	}
	for {
		_, r, err := enum.Next()
		if err == io.EOF {
			break
		}
		out = append(out, verifRegion(r))
	}
	enum.Close()
	return out
}
