#!/bin/bash
# Entry point of every registered command.
#   ./run.sh setup
#   ./run.sh check <property> <quick|thorough>
#   ./run.sh replay <file>
#   ./run.sh selftest
set -u
VERIF="$(cd "$(dirname "$0")" && pwd)"
export VERIF_DIR="$VERIF"
export GOFLAGS=-mod=mod GOPROXY=off GOSUMDB=off GOTOOLCHAIN=local
GO=go1.26.8
BIN="$VERIF/scratch/bin"
mkdir -p "$BIN" || exit 2
( cd "$VERIF/tools" && $GO build -o "$BIN/driver" ./driver ) || { echo "run.sh: cannot build the driver" >&2; exit 2; }
case "${1:-}" in
  setup)
    # warm the build cache (std with the runtime overlay, dependencies) and prove determinism on a sample
    VERIF_SELFTEST_N=${VERIF_SELFTEST_N:-10} "$BIN/driver" selftest ;;
  check)
    [ -n "${VERIF_TIER:-}" ] && [ $# -lt 3 ] && set -- "$1" "$2" "$VERIF_TIER"
    "$BIN/driver" check "$2" "${3:-quick}" ;;
  replay)
    "$BIN/driver" replay "$2" ;;
  selftest)
    "$BIN/driver" selftest ;;
  *) echo "usage: run.sh setup | check <prop> <tier> | replay <file> | selftest" >&2; exit 2 ;;
esac
