// Package rng is the simulator's only source of randomness: a splitmix64
// generator seeded from VERIF_SEED-derived values.
package rng

type Rand struct{ s uint64 }

func New(seed uint64) *Rand { return &Rand{s: seed} }

func Mix(x uint64) uint64 {
	x += 0x9e3779b97f4a7c15
	x = (x ^ (x >> 30)) * 0xbf58476d1ce4e5b9
	x = (x ^ (x >> 27)) * 0x94d049bb133111eb
	return x ^ (x >> 31)
}

// Derive returns a seed derived from base and the given labels.
func Derive(base uint64, labels ...uint64) uint64 {
	x := Mix(base)
	for _, l := range labels {
		x = Mix(x ^ l)
	}
	return x
}

func (r *Rand) Uint64() uint64 {
	r.s += 0x9e3779b97f4a7c15
	z := r.s
	z = (z ^ (z >> 30)) * 0xbf58476d1ce4e5b9
	z = (z ^ (z >> 27)) * 0x94d049bb133111eb
	return z ^ (z >> 31)
}

// Intn returns a value in [0,n). n must be > 0.
func (r *Rand) Intn(n int) int {
	if n <= 0 {
		panic("rng: Intn with n <= 0")
	}
	return int((r.Uint64() >> 11) % uint64(n))
}

// Range returns a value in [lo,hi].
func (r *Rand) Range(lo, hi int) int { return lo + r.Intn(hi-lo+1) }

func (r *Rand) Float() float64 { return float64(r.Uint64()>>11) / (1 << 53) }

// Chance returns true with probability p.
func (r *Rand) Chance(p float64) bool { return r.Float() < p }

// Pick returns a weighted index; weights must be non-negative with a positive sum.
func (r *Rand) Pick(weights []float64) int {
	var sum float64
	for _, w := range weights {
		sum += w
	}
	x := r.Float() * sum
	for i, w := range weights {
		if x < w {
			return i
		}
		x -= w
	}
	return len(weights) - 1
}

// Fork returns an independent generator.
func (r *Rand) Fork() *Rand { return New(Mix(r.Uint64())) }
