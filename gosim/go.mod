module gosim

go 1.26

require (
	github.com/anishathalye/porcupine v1.3.0
	github.com/golang/snappy v0.0.4
	github.com/tsuna/gohbase v0.0.0
	google.golang.org/protobuf v1.36.5
)

replace github.com/tsuna/gohbase => /repo
