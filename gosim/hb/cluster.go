package hb

import (
	"bytes"
	"crypto/md5"
	"encoding/hex"
	"fmt"
	"sort"
	"strconv"
	"strings"

	"github.com/tsuna/gohbase/pb"
	"google.golang.org/protobuf/proto"
)

// RegionState is the life-cycle state of a region in the model.
type RegionState int

const (
	Open    RegionState = iota // assigned and serving
	Opening                    // assigned in meta, server answers "not serving"
	Gone                       // removed from meta (split parent, merged, dropped)
)

// Region is one region of the model.
type Region struct {
	Name   string
	Table  string // fully qualified ("ns:t" or "t")
	ID     uint64
	Start  []byte
	Stop   []byte // empty = +inf
	Server int    // index into Cluster.Servers
	State  RegionState
	// Published lists every address hbase:meta has ever published for it.
	Published []string
	// Hosted lists every server index that ever hosted (served) the region.
	Hosted []int
	// MetaHidden: hbase:meta has (for the moment) no row for the region: a hole
	MetaHidden bool
}

// Contains reports start <= key < stop.
func (r *Region) Contains(key []byte) bool {
	return bytes.Compare(key, r.Start) >= 0 && (len(r.Stop) == 0 || bytes.Compare(key, r.Stop) < 0)
}

// Row is one stored row: "fam:qual" -> value (single version).
type Row struct {
	Key   []byte
	Cells map[string][]byte
}

// Table of the model.
type Table struct {
	Name string
	Rows map[string]*Row
}

// Server is a simulated regionserver (or master).
type Server struct {
	Idx     int
	Addr    string
	Up      bool
	Silent  bool // reads requests, never executes them
	Flaky   bool // accepts connections and drops them when a request arrives
	Conns   []*ServerConn
	Aborted string // if non-empty: answers every request with this fatal exception class
}

// Cluster is the whole simulated HBase deployment.
type Cluster struct {
	Servers []*Server
	Tables  map[string]*Table
	Regions []*Region // every region that ever existed, in creation order
	Meta    int       // server index hosting hbase:meta; published in ZooKeeper
	MetaZK  int       // what ZooKeeper says (may lag behind Meta)
	Master  int
	NextID  uint64

	ExecSeq     uint64
	Execs       []*Exec
	Rules       []*Rule
	Scanners    map[uint64]*Scanner
	nextScan    uint64
	zeroIDGiven bool
	Viol        []string     // violations observed by the servers (routing, framing)
	Now         func() int64 // fake time in ns, set by the simulator
	StepFn      func() uint64
	Rand        interface {
		Intn(int) int
		Chance(float64) bool
	}
	ScanKnobs ScanKnobs
	// Observers
	OnExec    func(*Exec)
	OnRequest func(*Request)
	// MetaCorruptFn lets a fault replace the cells of a meta row.
	MetaCorruptFn MetaCorrupt
	Corrupting    bool // corruption faults are active: server-side observers are silent
	ChunkLen      int  // compression chunk size used for responses (0 = Hadoop default)
	PermuteMulti  bool // permute result order inside multi responses
	// RowNonce attributes a Get that carries no time range to an operation
	RowNonce func(row []byte) uint64
	// master procedures and snapshots
	Procs    map[uint64]*Proc
	NextProc uint64
	ProcFail string // exception class of every third procedure ("" = all succeed)
	Snaps    map[string]*Snap
}

// ScanKnobs controls how servers cut scan streams (PRNG-driven, C06).
type ScanKnobs struct {
	Chunky    bool    // vary rows per response, partials, heartbeats
	Partial   float64 // probability a multi-cell row is cut into fragments
	Heartbeat float64 // probability of an empty heartbeat response
	InPB      float64 // probability results travel in protobuf instead of cellblock
	ZeroID    bool    // the first region scanner of the run gets the id 0
}

// NewCluster creates n servers with addresses rs0:16020, rs1:16020, ...
func NewCluster(n int) *Cluster {
	c := &Cluster{Tables: map[string]*Table{}, Scanners: map[uint64]*Scanner{}, NextID: 1500000000000, nextScan: 1000}
	for i := 0; i < n; i++ {
		c.Servers = append(c.Servers, &Server{Idx: i, Addr: fmt.Sprintf("rs%d:16020", i), Up: true})
	}
	return c
}

func (c *Cluster) Violate(format string, a ...any) {
	if c.Corrupting {
		// requests built from corrupted meta rows / responses are not judged
		return
	}
	c.Viol = append(c.Viol, fmt.Sprintf(format, a...))
}

// ServerByAddr returns the server with that address, or nil.
func (c *Cluster) ServerByAddr(addr string) *Server {
	for _, s := range c.Servers {
		if strings.EqualFold(s.Addr, addr) { // host names are case-insensitive
			return s
		}
	}
	return nil
}

// AddServer adds a new (up) server and returns its index.
func (c *Cluster) AddServer() int {
	i := len(c.Servers)
	c.Servers = append(c.Servers, &Server{Idx: i, Addr: fmt.Sprintf("rs%d:16020", i), Up: true})
	return i
}

func regionName(table string, start []byte, id uint64) string {
	base := table + "," + string(start) + "," + strconv.FormatUint(id, 10)
	sum := md5.Sum([]byte(base))
	return base + "." + hex.EncodeToString(sum[:]) + "."
}

// CreateTable creates a table with regions split at the given keys
// (sorted, non-empty, distinct), assigned round-robin from server first.
func (c *Cluster) CreateTable(name string, splits [][]byte, first int, ids []uint64) {
	if _, ok := c.Tables[name]; ok {
		panic("table exists: " + name)
	}
	c.Tables[name] = &Table{Name: name, Rows: map[string]*Row{}}
	bounds := append([][]byte{nil}, splits...)
	for i := range bounds {
		var stop []byte
		if i+1 < len(bounds) {
			stop = bounds[i+1]
		}
		var id uint64
		if i < len(ids) && ids[i] != 0 {
			id = ids[i]
		} else {
			c.NextID += 1000
			id = c.NextID
		}
		c.addRegion(name, bounds[i], stop, id, (first+i)%len(c.Servers), Open)
	}
}

func (c *Cluster) addRegion(table string, start, stop []byte, id uint64, server int, st RegionState) *Region {
	r := &Region{Name: regionName(table, start, id), Table: table, ID: id,
		Start: append([]byte(nil), start...), Stop: append([]byte(nil), stop...), Server: server, State: st}
	r.Published = append(r.Published, c.Servers[server].Addr)
	if st == Open {
		r.Hosted = append(r.Hosted, server)
	}
	c.Regions = append(c.Regions, r)
	return r
}

// RegionByName finds a region (of any state) by its full name.
func (c *Cluster) RegionByName(name string) *Region {
	for _, r := range c.Regions {
		if r.Name == name {
			return r
		}
	}
	return nil
}

// LiveRegions returns the regions currently in meta for a table, by start key.
func (c *Cluster) LiveRegions(table string) []*Region {
	var out []*Region
	for _, r := range c.Regions {
		if r.Table == table && r.State != Gone {
			out = append(out, r)
		}
	}
	sort.Slice(out, func(i, j int) bool { return bytes.Compare(out[i].Start, out[j].Start) < 0 })
	return out
}

// Locate returns the live region of table containing key, or nil.
func (c *Cluster) Locate(table string, key []byte) *Region {
	for _, r := range c.Regions {
		if r.Table == table && r.State != Gone && r.Contains(key) {
			return r
		}
	}
	return nil
}

// ---- cluster events ----

// Move reassigns a region to another server.
func (c *Cluster) Move(r *Region, to int) {
	if r.State == Gone {
		return
	}
	r.Server = to
	r.State = Open
	r.Published = append(r.Published, c.Servers[to].Addr)
	r.Hosted = append(r.Hosted, to)
	c.closeScannersOf(r)
}

// SetOpening makes a region transiently not served (meta still points to it).
func (c *Cluster) SetOpening(r *Region, opening bool) {
	if r.State == Gone {
		return
	}
	if opening {
		r.State = Opening
		c.closeScannersOf(r)
	} else {
		r.State = Open
		r.Hosted = append(r.Hosted, r.Server)
	}
}

// Split replaces r by two daughters with larger ids.
func (c *Cluster) Split(r *Region, at []byte, toA, toB int) (a, b *Region) {
	if r.State == Gone || !r.Contains(at) || bytes.Equal(at, r.Start) {
		return nil, nil
	}
	r.State = Gone
	c.closeScannersOf(r)
	c.NextID += 1000
	id := c.NextID
	if id <= r.ID {
		id = r.ID + 1
		c.NextID = id
	}
	a = c.addRegion(r.Table, r.Start, at, id, toA, Open)
	b = c.addRegion(r.Table, at, r.Stop, id, toB, Open)
	return a, b
}

// Merge replaces two adjacent regions by one with a larger id.
func (c *Cluster) Merge(a, b *Region, to int) *Region {
	if a.State == Gone || b.State == Gone || a.Table != b.Table || !bytes.Equal(a.Stop, b.Start) || len(a.Stop) == 0 {
		return nil
	}
	a.State, b.State = Gone, Gone
	c.closeScannersOf(a)
	c.closeScannersOf(b)
	c.NextID += 1000
	id := c.NextID
	for _, x := range []*Region{a, b} {
		if id <= x.ID {
			id = x.ID + 1
			c.NextID = id
		}
	}
	return c.addRegion(a.Table, a.Start, b.Stop, id, to, Open)
}

// DropTable removes a table and its regions from meta.
func (c *Cluster) DropTable(name string) {
	for _, r := range c.Regions {
		if r.Table == name {
			r.State = Gone
			c.closeScannersOf(r)
		}
	}
	delete(c.Tables, name)
}

// Crash takes a server down: connections are reset by the simulator; its
// regions are reassigned to the given live servers (round robin).
func (c *Cluster) Crash(s int, reassign []int) {
	c.Servers[s].Up = false
	i := 0
	for _, r := range c.Regions {
		if r.State != Gone && r.Server == s && len(reassign) > 0 {
			c.Move(r, reassign[i%len(reassign)])
			i++
		}
	}
	if c.Meta == s && len(reassign) > 0 {
		c.Meta = reassign[0]
		c.MetaZK = c.Meta
	}
	if c.Master == s && len(reassign) > 0 {
		c.Master = reassign[0]
	}
	for id, sc := range c.Scanners {
		if sc.Server == s {
			delete(c.Scanners, id)
		}
	}
}

// Restart brings a server back up (empty).
func (c *Cluster) Restart(s int) {
	c.Servers[s].Up = true
	c.Servers[s].Silent = false
	c.Servers[s].Aborted = ""
}

func (c *Cluster) closeScannersOf(r *Region) {
	for id, sc := range c.Scanners {
		if sc.Region == r {
			delete(c.Scanners, id)
		}
	}
}

// ---- hbase:meta as a derived table ----

type metaRow struct {
	key   []byte
	table string
	start []byte
	rest  string // id and hash suffix
	reg   *Region
}

// metaTuple splits a meta row key / search key into (table, start, rest).
// parts is 1 if the key holds no comma (just a table prefix), else 3.
func metaTuple(k []byte) (table string, start []byte, rest string, parts int) {
	i := bytes.IndexByte(k, ',')
	if i < 0 {
		return string(k), nil, "", 1
	}
	j := bytes.LastIndexByte(k, ',')
	if j == i {
		// "table,rest": treat as table + start without id
		return string(k[:i]), k[i+1:], "", 2
	}
	return string(k[:i]), k[i+1 : j], string(k[j+1:]), 3
}

// metaCompare orders meta keys component-wise: table, start key, rest; a key
// with fewer components sorts before any key it is a prefix of.
func metaCompare(a, b []byte) int {
	ta, sa, ra, pa := metaTuple(a)
	tb, sb, rb, pb := metaTuple(b)
	if d := strings.Compare(ta, tb); d != 0 {
		return d
	}
	if pa == 1 || pb == 1 {
		return pa - pb
	}
	if d := bytes.Compare(sa, sb); d != 0 {
		return d
	}
	if pa == 2 || pb == 2 {
		return pa - pb
	}
	return strings.Compare(ra, rb)
}

// MetaCorrupt, if set, lets a fault replace the cells of a meta row.
type MetaCorrupt func(r *Region, cells []Cell) []Cell

func (c *Cluster) metaCells(r *Region) []Cell {
	ns, q := "default", r.Table
	if i := strings.IndexByte(r.Table, ':'); i >= 0 {
		ns, q = r.Table[:i], r.Table[i+1:]
	}
	ri := &pb.RegionInfo{
		RegionId:  proto.Uint64(r.ID),
		TableName: &pb.TableName{Namespace: []byte(ns), Qualifier: []byte(q)},
		StartKey:  r.Start,
		EndKey:    r.Stop,
		Offline:   proto.Bool(false),
		Split:     proto.Bool(false),
	}
	b, _ := proto.Marshal(ri)
	row := []byte(r.Name)
	addr := c.Servers[r.Server].Addr
	return []Cell{
		{Row: row, Fam: []byte("info"), Qual: []byte("regioninfo"), TS: 1, Type: TypePut, Value: append([]byte("PBUF"), b...)},
		{Row: row, Fam: []byte("info"), Qual: []byte("seqnumDuringOpen"), TS: 1, Type: TypePut, Value: []byte{0, 0, 0, 0, 0, 0, 0, 2}},
		{Row: row, Fam: []byte("info"), Qual: []byte("server"), TS: 1, Type: TypePut, Value: []byte(addr)},
		{Row: row, Fam: []byte("info"), Qual: []byte("serverstartcode"), TS: 1, Type: TypePut, Value: []byte{0, 0, 1, 0x6f, 0, 0, 0, 1}},
	}
}

// sortedRows returns the row keys of a table in scan order restricted to
// [lo, hi) (forward) semantic bounds; cmp is the table's comparator.
func (c *Cluster) tableRows(table string) (keys [][]byte, cmp func(a, b []byte) int, cells func(k []byte) []Cell) {
	if table == "hbase:meta" {
		var rows []metaRow
		for _, r := range c.Regions {
			if r.State != Gone && !r.MetaHidden {
				rows = append(rows, metaRow{key: []byte(r.Name), reg: r})
			}
		}
		sort.Slice(rows, func(i, j int) bool { return metaCompare(rows[i].key, rows[j].key) < 0 })
		m := map[string]*Region{}
		for _, r := range rows {
			keys = append(keys, r.key)
			m[string(r.key)] = r.reg
		}
		return keys, metaCompare, func(k []byte) []Cell {
			r := m[string(k)]
			cs := c.metaCells(r)
			if c.MetaCorruptFn != nil {
				cs = c.MetaCorruptFn(r, cs)
			}
			return cs
		}
	}
	t := c.Tables[table]
	if t == nil {
		return nil, bytes.Compare, func([]byte) []Cell { return nil }
	}
	for _, r := range t.Rows {
		if len(r.Cells) > 0 {
			keys = append(keys, r.Key)
		}
	}
	sort.Slice(keys, func(i, j int) bool { return bytes.Compare(keys[i], keys[j]) < 0 })
	return keys, bytes.Compare, func(k []byte) []Cell { return t.rowCells(k) }
}

func (t *Table) rowCells(k []byte) []Cell {
	r := t.Rows[string(k)]
	if r == nil {
		return nil
	}
	names := make([]string, 0, len(r.Cells))
	for n := range r.Cells {
		names = append(names, n)
	}
	sort.Strings(names)
	out := make([]Cell, 0, len(names))
	for _, n := range names {
		i := strings.IndexByte(n, ':')
		out = append(out, Cell{Row: r.Key, Fam: []byte(n[:i]), Qual: []byte(n[i+1:]), Type: TypePut, Value: r.Cells[n]})
	}
	return out
}

// RowsInRange returns the model's rows of a user table with start <= key < stop
// (empty stop = +inf), ascending; used by oracles.
func (c *Cluster) RowsInRange(table string, start, stop []byte) [][]byte {
	keys, _, _ := c.tableRows(table)
	var out [][]byte
	for _, k := range keys {
		if bytes.Compare(k, start) >= 0 && (len(stop) == 0 || bytes.Compare(k, stop) < 0) {
			out = append(out, k)
		}
	}
	return out
}

// RowCells returns the model's cells of a row.
func (c *Cluster) RowCells(table string, key []byte) []Cell {
	t := c.Tables[table]
	if t == nil {
		return nil
	}
	return t.rowCells(key)
}
