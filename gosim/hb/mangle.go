package hb

import (
	"bytes"
	"encoding/binary"

	"github.com/tsuna/gohbase/pb"
	"google.golang.org/protobuf/encoding/protowire"
	"google.golang.org/protobuf/proto"
)

// Corruption of response frames (C11). A frame is decoded into header,
// response body and cellblock, damaged in a structure-aware or random way and
// re-encoded. Rnd is the cluster's PRNG.

type Rnd interface {
	Intn(int) int
	Chance(float64) bool
}

// MangleKinds lists the corruption kinds (each is counted when it fires).
var MangleKinds = []string{
	"byte-flip", "byte-insert", "byte-delete", "length-larger", "length-smaller", "truncate-eof",
	"header-garbage", "header-no-callid", "header-unknown-callid", "exception-no-class", "exception-no-stack",
	"cellmeta-too-large", "cellmeta-zero", "cellmeta-mismatch", "body-garbage", "body-wrong-message",
	"cellcount-over", "cellcount-under", "cellcount-negative",
	"scan-arrays-differ", "scan-cells-past-block", "scan-partials-longer",
	"multi-index-zero", "multi-index-large", "multi-index-dup", "multi-result-and-exception", "multi-neither",
	"multi-region-exception-with-results", "multi-more-regions", "multi-fewer-regions", "multi-exception-no-name",
	"kv-length-huge", "kv-length-wrap", "kv-keylen-bad", "kv-rowlen-bad", "kv-truncated",
	"compress-total-wrong", "compress-chunk-past", "compress-chunk-garbage", "compress-chunk-zero", "compress-total-huge",
	"value-resize", "scan-empty-partial", "multi-result-missing",
}

func splitFrame(frame []byte) (h *pb.ResponseHeader, body, cells []byte, ok bool) {
	if len(frame) < 4 {
		return nil, nil, nil, false
	}
	b := frame[4:]
	hb, n := protowire.ConsumeBytes(b)
	if n < 0 {
		return nil, nil, nil, false
	}
	h = &pb.ResponseHeader{}
	if proto.Unmarshal(hb, h) != nil {
		return nil, nil, nil, false
	}
	b = b[n:]
	if h.Exception != nil {
		return h, nil, nil, true
	}
	body, m := protowire.ConsumeBytes(b)
	if m < 0 {
		return nil, nil, nil, false
	}
	return h, body, b[m:], true
}

func joinFrame(h *pb.ResponseHeader, body, cells []byte, hasBody bool) []byte {
	hbz, _ := proto.Marshal(h)
	out := protowire.AppendBytes(nil, hbz)
	if hasBody {
		out = protowire.AppendBytes(out, body)
	}
	out = append(out, cells...)
	return append(binary.BigEndian.AppendUint32(nil, uint32(len(out))), out...)
}

func garbage(r Rnd, n int) []byte {
	b := make([]byte, n)
	for i := range b {
		b[i] = byte(r.Intn(256))
	}
	return b
}

// Mangle damages a response frame. It returns the new bytes, the kind that
// was applied ("" if the kind did not fit the frame and nothing was changed)
// and whether the connection must be cut after delivering them.
func Mangle(r Rnd, method string, codec bool, structuralOnly bool, frame []byte) (out []byte, kind string, cut bool) {
	kind = MangleKinds[r.Intn(len(MangleKinds))]
	if structuralOnly {
		// damage that can pass every check and still change the data (a flipped
		// byte in a region id or key) is not applied to hbase:meta rows: the
		// liveness oracle could not tell its consequences from a defect
		switch kind {
		case "byte-flip", "byte-insert", "byte-delete", "compress-chunk-garbage":
			return frame, "", false
		}
	}
	h, body, cells, ok := splitFrame(frame)
	if !ok {
		return frame, "", false
	}
	hasBody := h.Exception == nil
	setMeta := func(n uint32) { h.CellBlockMeta = &pb.CellBlockMeta{Length: proto.Uint32(n)} }
	switch kind {
	case "byte-flip":
		out = append([]byte(nil), frame...)
		for k := 0; k < 1+r.Intn(4) && len(out) > 4; k++ {
			i := 4 + r.Intn(len(out)-4)
			out[i] ^= byte(1 << r.Intn(8))
		}
		return out, kind, false
	case "byte-insert":
		i := 4 + r.Intn(len(frame)-3)
		out = append(append(append([]byte(nil), frame[:i]...), garbage(r, 1+r.Intn(3))...), frame[i:]...)
		binary.BigEndian.PutUint32(out, uint32(len(out)-4))
		return out, kind, false
	case "byte-delete":
		if len(frame) < 8 {
			return frame, "", false
		}
		i := 4 + r.Intn(len(frame)-5)
		out = append(append([]byte(nil), frame[:i]...), frame[i+1:]...)
		binary.BigEndian.PutUint32(out, uint32(len(out)-4))
		return out, kind, false
	case "length-larger":
		out = append([]byte(nil), frame...)
		binary.BigEndian.PutUint32(out, uint32(len(frame)-4+1+r.Intn(1<<uint(r.Intn(20)))))
		return out, kind, false
	case "length-smaller":
		out = append([]byte(nil), frame...)
		binary.BigEndian.PutUint32(out, uint32(r.Intn(len(frame)-4)))
		return out, kind, false
	case "truncate-eof":
		return append([]byte(nil), frame[:r.Intn(len(frame))]...), kind, true
	case "header-garbage":
		g := garbage(r, 1+r.Intn(12))
		b := protowire.AppendBytes(nil, g)
		if r.Chance(0.5) {
			b = g // not even a delimited field
		}
		return append(binary.BigEndian.AppendUint32(nil, uint32(len(b))), b...), kind, false
	case "header-no-callid":
		h.CallId = nil
	case "header-unknown-callid":
		h.CallId = proto.Uint32(h.GetCallId() + 1000 + uint32(r.Intn(1000)))
	case "exception-no-class":
		h.Exception = &pb.ExceptionResponse{StackTrace: proto.String("boom")}
		hasBody, cells, h.CellBlockMeta = false, nil, nil
	case "exception-no-stack":
		h.Exception = &pb.ExceptionResponse{ExceptionClassName: proto.String(ExIOException)}
		hasBody, cells, h.CellBlockMeta = false, nil, nil
	case "cellmeta-too-large":
		setMeta(uint32(len(frame) + 1 + r.Intn(1<<20)))
	case "cellmeta-zero":
		if len(cells) == 0 {
			return frame, "", false
		}
		h.CellBlockMeta = nil
	case "cellmeta-mismatch":
		if len(cells) < 2 {
			setMeta(uint32(1 + r.Intn(64)))
		} else {
			setMeta(uint32(1 + r.Intn(len(cells)-1)))
		}
	case "body-garbage":
		if !hasBody {
			return frame, "", false
		}
		body = garbage(r, r.Intn(24))
	case "body-wrong-message":
		if !hasBody {
			return frame, "", false
		}
		other := []proto.Message{&pb.ScanResponse{ScannerId: proto.Uint64(7), CellsPerResult: []uint32{3, 9}, PartialFlagPerResult: []bool{true}},
			&pb.MultiResponse{RegionActionResult: []*pb.RegionActionResult{{ResultOrException: []*pb.ResultOrException{{Index: proto.Uint32(9), Result: &pb.Result{AssociatedCellCount: proto.Int32(5)}}}}}},
			&pb.GetResponse{Result: &pb.Result{AssociatedCellCount: proto.Int32(4)}}}
		body, _ = proto.Marshal(other[r.Intn(len(other))])
	case "cellcount-over", "cellcount-under", "cellcount-negative":
		if !hasBody {
			return frame, "", false
		}
		delta := map[string]int32{"cellcount-over": int32(1 + r.Intn(1000)), "cellcount-under": -1, "cellcount-negative": -1000000}[kind]
		fix := func(res *pb.Result) bool {
			if res == nil {
				return false
			}
			v := res.GetAssociatedCellCount() + delta
			if kind == "cellcount-negative" {
				v = -1 - int32(r.Intn(1<<30))
			}
			res.AssociatedCellCount = proto.Int32(v)
			return true
		}
		switch method {
		case "Get":
			m := &pb.GetResponse{}
			if proto.Unmarshal(body, m) != nil || !fix(m.Result) {
				return frame, "", false
			}
			body, _ = proto.Marshal(m)
		case "Mutate":
			m := &pb.MutateResponse{}
			if proto.Unmarshal(body, m) != nil {
				return frame, "", false
			}
			if m.Result == nil {
				m.Result = &pb.Result{}
			}
			fix(m.Result)
			body, _ = proto.Marshal(m)
		case "Multi":
			m := &pb.MultiResponse{}
			if proto.Unmarshal(body, m) != nil {
				return frame, "", false
			}
			done := false
			for _, ra := range m.RegionActionResult {
				for _, roe := range ra.ResultOrException {
					if !done && roe.Result != nil && r.Chance(0.5) {
						done = fix(roe.Result)
					}
				}
			}
			if !done {
				return frame, "", false
			}
			body, _ = proto.Marshal(m)
		default:
			return frame, "", false
		}
	case "scan-arrays-differ", "scan-cells-past-block", "scan-partials-longer":
		if method != "Scan" || !hasBody {
			return frame, "", false
		}
		m := &pb.ScanResponse{}
		if proto.Unmarshal(body, m) != nil {
			return frame, "", false
		}
		switch kind {
		case "scan-arrays-differ":
			m.CellsPerResult = append(m.CellsPerResult, uint32(r.Intn(3)), uint32(r.Intn(3)))
			if len(cells) == 0 {
				cells = encodeCells([]Cell{{Row: []byte("x"), Fam: []byte("f"), Type: TypePut}})
				setMeta(uint32(len(cells)))
			}
		case "scan-cells-past-block":
			m.CellsPerResult = append(m.CellsPerResult, uint32(1+r.Intn(1000)))
			m.PartialFlagPerResult = append(m.PartialFlagPerResult, false)
			if len(cells) == 0 {
				cells = encodeCells([]Cell{{Row: []byte("x"), Fam: []byte("f"), Type: TypePut}})
				setMeta(uint32(len(cells)))
			}
		case "scan-partials-longer":
			m.PartialFlagPerResult = append(m.PartialFlagPerResult, true, false, true)
		}
		body, _ = proto.Marshal(m)
	case "multi-index-zero", "multi-index-large", "multi-index-dup", "multi-result-and-exception", "multi-neither",
		"multi-region-exception-with-results", "multi-more-regions", "multi-fewer-regions", "multi-exception-no-name", "multi-result-missing":
		if method != "Multi" || !hasBody {
			return frame, "", false
		}
		m := &pb.MultiResponse{}
		if proto.Unmarshal(body, m) != nil || len(m.RegionActionResult) == 0 {
			return frame, "", false
		}
		ra := m.RegionActionResult[r.Intn(len(m.RegionActionResult))]
		var roe *pb.ResultOrException
		if len(ra.ResultOrException) > 0 {
			roe = ra.ResultOrException[r.Intn(len(ra.ResultOrException))]
		}
		switch kind {
		case "multi-index-zero":
			if roe == nil {
				return frame, "", false
			}
			if r.Chance(0.5) {
				roe.Index = nil
			} else {
				roe.Index = proto.Uint32(0)
			}
		case "multi-index-large":
			if roe == nil {
				return frame, "", false
			}
			roe.Index = proto.Uint32(uint32(50 + r.Intn(1<<uint(r.Intn(31)))))
		case "multi-index-dup":
			if len(ra.ResultOrException) < 2 {
				return frame, "", false
			}
			ra.ResultOrException[1].Index = ra.ResultOrException[0].Index
			if r.Chance(0.5) {
				// the same action answered by exceptions first and a result last
				// (a caller that gets a retryable answer comes back and drains the
				// surplus answers; one that gets a final answer does not, so both
				// classes are drawn)
				classes := []string{ExTooBusy, ExDoNotRetry, ExNoSuchFamily, ExCallQueue}
				first := ra.ResultOrException[0]
				first.Result, first.Exception = nil, excPair(classes[r.Intn(len(classes))], "dup")
				for k, n := 0, r.Intn(4); k < n; k++ {
					dup := &pb.ResultOrException{Index: first.Index, Exception: excPair(classes[r.Intn(len(classes))], "dup again")}
					ra.ResultOrException = append([]*pb.ResultOrException{dup}, ra.ResultOrException...)
				}
			}
		case "multi-result-and-exception":
			if roe == nil {
				return frame, "", false
			}
			roe.Result = &pb.Result{}
			roe.Exception = excPair(ExIOException, "both")
		case "multi-neither":
			if roe == nil {
				return frame, "", false
			}
			roe.Result, roe.Exception = nil, nil
		case "multi-region-exception-with-results":
			ra.Exception = excPair(ExNotServing, "region exception with results")
			if len(ra.ResultOrException) == 0 {
				ra.ResultOrException = append(ra.ResultOrException, &pb.ResultOrException{Index: proto.Uint32(1), Result: &pb.Result{}})
			}
		case "multi-more-regions":
			for k := 0; k < 1+r.Intn(3); k++ {
				x := &pb.RegionActionResult{}
				if r.Chance(0.5) {
					x.Exception = excPair(ExNotServing, "extra region")
				} else {
					x.ResultOrException = []*pb.ResultOrException{{Index: proto.Uint32(1), Result: &pb.Result{AssociatedCellCount: proto.Int32(0)}}}
				}
				m.RegionActionResult = append(m.RegionActionResult, x)
			}
		case "multi-fewer-regions":
			m.RegionActionResult = m.RegionActionResult[:len(m.RegionActionResult)-1]
		case "multi-result-missing":
			// an otherwise consistent response that says nothing about one action
			// (one whose result carries no cells, so that the cellblock still fits)
			var idx []int
			for i, x := range ra.ResultOrException {
				if x.Exception != nil || x.Result == nil || (x.Result.GetAssociatedCellCount() == 0 && len(x.Result.Cell) == 0) {
					idx = append(idx, i)
				}
			}
			if len(idx) == 0 {
				return frame, "", false
			}
			i := idx[r.Intn(len(idx))]
			ra.ResultOrException = append(ra.ResultOrException[:i:i], ra.ResultOrException[i+1:]...)
		case "multi-exception-no-name":
			if r.Chance(0.5) || roe == nil {
				ra.Exception = &pb.NameBytesPair{Value: []byte("no name")}
				ra.ResultOrException = nil
			} else {
				roe.Result = nil
				roe.Exception = &pb.NameBytesPair{Value: []byte("no name")}
			}
		}
		body, _ = proto.Marshal(m)
		if len(cells) == 0 && r.Chance(0.4) {
			// the header announces a cellblock of no bytes instead of none at all
			if r.Chance(0.5) {
				setMeta(0)
			} else {
				h.CellBlockMeta = &pb.CellBlockMeta{}
			}
		}
	case "kv-length-huge", "kv-length-wrap", "kv-keylen-bad", "kv-rowlen-bad", "kv-truncated":
		raw := cells
		if codec && len(raw) > 0 {
			dec, err := BlockDecompress(raw)
			if err != nil {
				return frame, "", false
			}
			raw = dec
		}
		if len(raw) < 16 {
			return frame, "", false
		}
		raw = append([]byte(nil), raw...)
		switch kind {
		case "kv-length-huge":
			binary.BigEndian.PutUint32(raw, uint32(len(raw))+uint32(1+r.Intn(1<<24)))
		case "kv-length-wrap":
			binary.BigEndian.PutUint32(raw, 0xFFFFFFFC+uint32(r.Intn(4)))
			if r.Chance(0.5) {
				// inner lengths consistent modulo 2^32
				binary.BigEndian.PutUint32(raw[4:], 0xFFFFFF00)
				binary.BigEndian.PutUint32(raw[8:], 0x000000F4)
			}
		case "kv-keylen-bad":
			binary.BigEndian.PutUint32(raw[4:], uint32(r.Intn(1<<uint(1+r.Intn(31)))))
		case "kv-rowlen-bad":
			binary.BigEndian.PutUint16(raw[12:], uint16(r.Intn(1<<16)))
			if r.Chance(0.5) {
				raw[14] = byte(r.Intn(256))
			}
		case "kv-truncated":
			raw = raw[:4+r.Intn(len(raw)-4)]
		}
		if codec {
			raw = BlockCompress(raw, SnappyChunk)
		}
		cells = raw
		setMeta(uint32(len(cells)))
	case "value-resize":
		// well-formed cells whose value has a length the caller does not expect
		// (a counter that is not 8 bytes long, an empty region info, ...)
		newVal := func() []byte { return garbage(r, []int{0, 1, 3, 7, 9, 12}[r.Intn(6)]) }
		if len(cells) > 0 {
			raw := cells
			if codec {
				dec, err := BlockDecompress(raw)
				if err != nil {
					return frame, "", false
				}
				raw = dec
			}
			cs, err := DecodeCells(raw)
			if err != nil || len(cs) == 0 {
				return frame, "", false
			}
			cs[r.Intn(len(cs))].Value = newVal()
			raw = encodeCells(cs)
			if codec {
				raw = BlockCompress(raw, SnappyChunk)
			}
			cells = raw
			setMeta(uint32(len(cells)))
			break
		}
		if !hasBody {
			return frame, "", false
		}
		var res *pb.Result
		var m proto.Message
		switch method {
		case "Get":
			g := &pb.GetResponse{}
			if proto.Unmarshal(body, g) != nil {
				return frame, "", false
			}
			res, m = g.Result, g
		case "Mutate":
			g := &pb.MutateResponse{}
			if proto.Unmarshal(body, g) != nil {
				return frame, "", false
			}
			res, m = g.Result, g
		default:
			return frame, "", false
		}
		if res == nil || len(res.Cell) == 0 {
			return frame, "", false
		}
		res.Cell[r.Intn(len(res.Cell))].Value = newVal()
		body, _ = proto.Marshal(m)
	case "scan-empty-partial":
		// a partial result without cells in the middle of a scan response
		if method != "Scan" || !hasBody {
			return frame, "", false
		}
		m := &pb.ScanResponse{}
		if proto.Unmarshal(body, m) != nil {
			return frame, "", false
		}
		switch {
		case len(m.CellsPerResult) > 0 && len(m.PartialFlagPerResult) == len(m.CellsPerResult):
			i := r.Intn(len(m.CellsPerResult) + 1)
			m.CellsPerResult = append(m.CellsPerResult[:i:i], append([]uint32{0}, m.CellsPerResult[i:]...)...)
			m.PartialFlagPerResult = append(m.PartialFlagPerResult[:i:i], append([]bool{true}, m.PartialFlagPerResult[i:]...)...)
		case len(m.Results) > 0:
			i := r.Intn(len(m.Results) + 1)
			m.Results = append(m.Results[:i:i], append([]*pb.Result{{Partial: proto.Bool(true)}}, m.Results[i:]...)...)
		default:
			return frame, "", false
		}
		body, _ = proto.Marshal(m)
	case "compress-total-wrong", "compress-chunk-past", "compress-chunk-garbage", "compress-chunk-zero", "compress-total-huge":
		if !codec || len(cells) < 12 {
			return frame, "", false
		}
		cells = append([]byte(nil), cells...)
		switch kind {
		case "compress-total-wrong":
			binary.BigEndian.PutUint32(cells, binary.BigEndian.Uint32(cells)+uint32(1+r.Intn(100)))
		case "compress-total-huge":
			n := uint32(1<<20 + r.Intn(1<<23))
			if r.Chance(0.3) {
				n = []uint32{0x7fffffff, 0x80000000, 0xfffffffc, 0xffffffff}[r.Intn(4)]
			}
			binary.BigEndian.PutUint32(cells, n)
		case "compress-chunk-past":
			n := uint32(len(cells) + r.Intn(1<<20))
			if r.Chance(0.4) {
				// boundary values of the 32-bit length field
				n = []uint32{0x7fffffff, 0x80000000, 0xfffffffb, 0xfffffffc, 0xfffffffd, 0xfffffffe, 0xffffffff}[r.Intn(7)]
			}
			binary.BigEndian.PutUint32(cells[4:], n)
		case "compress-chunk-zero":
			binary.BigEndian.PutUint32(cells[4:], 0)
		case "compress-chunk-garbage":
			for i := 8; i < len(cells) && i < 8+16; i++ {
				cells[i] = byte(r.Intn(256))
			}
		}
	default:
		return frame, "", false
	}
	return joinFrame(h, body, cells, hasBody), kind, false
}

// MetaCorruptKinds lists the damage done to hbase:meta rows.
var MetaCorruptKinds = []string{"regioninfo-empty", "regioninfo-short", "regioninfo-bad-magic", "regioninfo-bad-proto", "regioninfo-offline",
	"regioninfo-no-table", "server-absent", "server-empty", "regioninfo-absent", "rowkey-no-commas", "rowkey-one-comma", "rowkey-garbage", "region-older",
	"rowkey-other-start", "rowkey-other-table", "region-older-parent", "rowkey-search-key"}

// CorruptMeta damages the cells of one meta row.
func CorruptMeta(r Rnd, cells []Cell) ([]Cell, string) {
	return CorruptMetaKind(r, cells, MetaCorruptKinds[r.Intn(len(MetaCorruptKinds))])
}

// CorruptMetaKind applies one given kind of damage to the cells of a meta row.
func CorruptMetaKind(r Rnd, cells []Cell, kind string) ([]Cell, string) {
	out := make([]Cell, 0, len(cells))
	// damage to the row key (= the region name) applies to every cell of the row
	var newRow []byte
	if len(cells) > 0 {
		row := cells[0].Row
		switch kind {
		case "rowkey-no-commas":
			newRow = bytes.ReplaceAll(row, []byte(","), []byte(";"))
		case "rowkey-one-comma":
			i := bytes.IndexByte(row, ',')
			newRow = append(append([]byte(nil), row[:i+1]...), bytes.ReplaceAll(row[i+1:], []byte(","), []byte(";"))...)
		case "rowkey-garbage":
			newRow = garbage(r, r.Intn(12))
		case "rowkey-other-start", "rowkey-other-table":
			// a well-formed name that is not the name of the region the row describes
			i, j := bytes.IndexByte(row, ','), bytes.LastIndexByte(row, ',')
			table, start, rest := row[:i], row[i+1:j], row[j:]
			if kind == "rowkey-other-start" {
				alpha := []byte{0x00, '+', ',', '-', '0', 'a', 'm', 0xff}
				ns := make([]byte, r.Intn(3))
				for k := range ns {
					ns[k] = alpha[r.Intn(len(alpha))]
				}
				if bytes.Equal(ns, start) {
					ns = append(ns, 0x00)
				}
				start = ns
			} else {
				switch r.Intn(4) {
				case 0:
					table = append(append([]byte(nil), table...), 'x')
				case 1:
					table = table[:len(table)-1]
					if len(table) == 0 {
						table = []byte("a")
					}
				case 2:
					table = []byte("a")
				default:
					table = []byte("zz")
				}
			}
			newRow = append(append(append(append([]byte(nil), table...), ','), start...), rest...)
		case "region-older":
			// hbase:meta answers with an older incarnation of the region: smaller id, other name
			j := bytes.LastIndexByte(row, ',')
			newRow = append(append([]byte(nil), row[:j+1]...), []byte("1.0123456789abcdef0123456789abcdef.")...)
		case "rowkey-search-key":
			// the name ends where the id belongs with ":", which makes it equal to
			// the key the client searches its cache with for the region's start key
			j := bytes.LastIndexByte(row, ',')
			newRow = append(append([]byte(nil), row[:j+1]...), ':')
		case "region-older-parent":
			// hbase:meta is stale: it answers with the parent the table's regions
			// were split from, an older region that spans the whole table
			i := bytes.IndexByte(row, ',')
			newRow = append(append([]byte(nil), row[:i+1]...), []byte(",1.0123456789abcdef0123456789abcdef.")...)
		}
	}
	for _, c := range cells {
		q := string(c.Qual)
		if newRow != nil {
			c.Row = newRow
			if (kind == "region-older" || kind == "region-older-parent") && q == "regioninfo" {
				ri := &pb.RegionInfo{}
				if proto.Unmarshal(c.Value[4:], ri) == nil {
					ri.RegionId = proto.Uint64(1)
					if kind == "region-older-parent" {
						ri.StartKey, ri.EndKey = []byte{}, []byte{}
					}
					b, _ := proto.Marshal(ri)
					c.Value = append([]byte("PBUF"), b...)
				}
			}
			out = append(out, c)
			continue
		}
		switch {
		case q == "regioninfo" && kind == "regioninfo-absent":
			continue
		case q == "regioninfo" && kind == "regioninfo-empty":
			c.Value = nil
		case q == "regioninfo" && kind == "regioninfo-short":
			c.Value = []byte("PBU")[:1+r.Intn(3)]
		case q == "regioninfo" && kind == "regioninfo-bad-magic":
			c.Value = append([]byte("PBUX"), c.Value[4:]...)
		case q == "regioninfo" && kind == "regioninfo-bad-proto":
			c.Value = append([]byte("PBUF"), garbage(r, 1+r.Intn(20))...)
		case q == "regioninfo" && (kind == "regioninfo-offline" || kind == "regioninfo-no-table"):
			ri := &pb.RegionInfo{}
			if proto.Unmarshal(c.Value[4:], ri) == nil {
				if kind == "regioninfo-offline" {
					ri.Offline = proto.Bool(true)
				} else {
					ri.TableName = nil
				}
				// required fields may be missing now: marshal what is there
				b, _ := proto.MarshalOptions{AllowPartial: true}.Marshal(ri)
				c.Value = append([]byte("PBUF"), b...)
			}
		case q == "server" && kind == "server-absent":
			continue
		case q == "server" && kind == "server-empty":
			c.Value = nil
		}
		out = append(out, c)
	}
	return out, kind
}
