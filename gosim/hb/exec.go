package hb

import (
	"bytes"
	"encoding/binary"
	"fmt"
	"sort"
	"strings"

	"github.com/tsuna/gohbase/pb"
	"google.golang.org/protobuf/proto"
	"google.golang.org/protobuf/reflect/protoreflect"
)

// Exception class names.
const (
	ExNotServing   = "org.apache.hadoop.hbase.NotServingRegionException"
	ExRegionMoved  = "org.apache.hadoop.hbase.exceptions.RegionMovedException"
	ExIOException  = "java.io.IOException"
	ExCallQueue    = "org.apache.hadoop.hbase.CallQueueTooBigException"
	ExOpening      = "org.apache.hadoop.hbase.exceptions.RegionOpeningException"
	ExThrottling   = "org.apache.hadoop.hbase.quotas.RpcThrottlingException"
	ExRetryImm     = "org.apache.hadoop.hbase.RetryImmediatelyException"
	ExTooBusy      = "org.apache.hadoop.hbase.RegionTooBusyException"
	ExPleaseHold   = "org.apache.hadoop.hbase.PleaseHoldException"
	ExAborted      = "org.apache.hadoop.hbase.regionserver.RegionServerAbortedException"
	ExStopped      = "org.apache.hadoop.hbase.regionserver.RegionServerStoppedException"
	ExMasterStop   = "org.apache.hadoop.hbase.exceptions.MasterStoppedException"
	ExNotRunning   = "org.apache.hadoop.hbase.ipc.ServerNotRunningYetException"
	ExWrongRegion  = "org.apache.hadoop.hbase.regionserver.WrongRegionException"
	ExUnknownScan  = "org.apache.hadoop.hbase.UnknownScannerException"
	ExDoNotRetry   = "org.apache.hadoop.hbase.DoNotRetryIOException"
	ExNoSuchFamily = "org.apache.hadoop.hbase.regionserver.NoSuchColumnFamilyException"
	ExAccessDenied = "org.apache.hadoop.hbase.security.AccessDeniedException"
	LogClosedMsg   = "Cannot append; log is closed"
)

// Classes by how the client is meant to treat them.
var (
	RetryableClasses  = []string{ExCallQueue, ExOpening, ExThrottling, ExRetryImm, ExTooBusy, ExPleaseHold}
	NotServingClasses = []string{ExNotServing, ExRegionMoved}
	FatalClasses      = []string{ExAborted, ExStopped, ExMasterStop, ExNotRunning}
	AppClasses        = []string{ExDoNotRetry, ExNoSuchFamily, ExAccessDenied, "com.example.UnknownToClientException", ExIOException}
)

// doNotRetryClasses are the exception classes that derive from
// DoNotRetryIOException in HBase: a server marks them do_not_retry in the
// response header. What the client does with an exception is decided by its
// class (MasterStoppedException means: find the new master), not by the hint.
var doNotRetryClasses = map[string]bool{ExMasterStop: true, ExDoNotRetry: true, ExNoSuchFamily: true, ExAccessDenied: true, ExUnknownScan: true}

// Rule injects an exception into matching executions.
type Rule struct {
	Table  string // "" = any
	Region string // region name, "" = any
	Nonce  uint64 // 0 = any
	Kind   string // "Get","Mutate","Scan","Probe" or "" = any user request with a nonce
	Server int    // -1 = any
	Class  string
	Msg    string
	Level  string // "action" (default), "region" (multi: whole region action), "call" (whole rpc)
	Count  int    // remaining matches; <0 = forever
	Fired  int
	Tag    string
}

// Exec is one executed action in the server-side log.
type Exec struct {
	Seq                       uint64
	Nonce                     uint64
	Kind                      string // Get, Put, Delete, Append, Increment, CheckAndPut, ScanOpen, ScanNext, ScanClose, ScanRenew, Probe, Meta
	Table                     string
	Row                       []byte
	Region                    string // region name carried by the request
	Server                    int
	Conn                      int
	CallID                    uint32
	Multi                     uint64 // sequence number of the enclosing multi request, 0 if single
	MultiPos                  int    // position of the action within its region action
	RegPos                    int    // position of the region action in the multi
	Err                       string // exception class sent, "" if ok
	ErrLevel                  string
	Applied                   bool   // the model state was changed / read successfully
	Cells                     []Cell // cells returned
	Time                      int64
	ReqSeq                    int
	ScannerID                 uint64
	MoreInRegion, MoreResults *bool
	Op                        string // master requests: the method
	ProcID                    uint64 // master requests: the procedure started / asked about
	// decoded request, for the wire-content oracle (C05)
	ReqGet   *pb.Get
	ReqMut   *pb.MutationProto
	ReqCond  *pb.Condition
	ReqCells []Cell
	ReqScan  *pb.ScanRequest
	Header   *pb.RequestHeader
	ArrT     int64  // fake time at which the request frame was written
	ArrStep  uint64 // scheduler step at which the request frame was written
	Step     uint64 // scheduler step of the execution
	RespEnd  int    // end offset of the response in the connection's response stream (0 = none)
}

// ServerConn is the server side of one client connection.
type ServerConn struct {
	ID           int
	Server       *Server
	C            *Cluster
	Parser       StreamParser
	Pending      []*Request
	Out          [][]byte
	Codec        bool
	callIDs      map[uint32]bool
	FramesIn     int
	Closed       bool
	MasterConn   bool
	checkedHello bool
}

// Request is a decoded request awaiting execution.
type Request struct {
	Conn    *ServerConn
	Frame   *Frame
	CallID  uint32
	Method  string
	Msg     proto.Message
	Cells   []Cell
	Arrived int64
	ArrStep uint64
	Seq     int
}

var reqSeq int

// NewConn registers a new connection to server s.
func (c *Cluster) NewConn(s *Server, id int) *ServerConn {
	sc := &ServerConn{ID: id, Server: s, C: c, callIDs: map[uint32]bool{}}
	s.Conns = append(s.Conns, sc)
	return sc
}

// Feed is called with every byte sequence the client writes.
func (sc *ServerConn) Feed(b []byte) {
	c := sc.C
	frames := sc.Parser.Feed(b)
	if sc.Parser.Err != nil && !sc.Closed {
		c.Violate("C05 framing conn=%d server=%s: %v", sc.ID, sc.Server.Addr, sc.Parser.Err)
		sc.Closed = true
		return
	}
	if sc.Parser.Hello != nil && !sc.checkedHello {
		sc.checkedHello = true
		h := sc.Parser.Hello
		want := "ClientService"
		if h.GetServiceName() == "MasterService" {
			// any server may be (or have been) the master
			want = "MasterService"
			sc.MasterConn = true
		}
		if h.GetServiceName() != want {
			c.Violate("C05 hello conn=%d: service name %q", sc.ID, h.GetServiceName())
		}
		if h.GetCellBlockCodecClass() != "org.apache.hadoop.hbase.codec.KeyValueCodec" {
			c.Violate("C05 hello conn=%d: cell block codec class %q", sc.ID, h.GetCellBlockCodecClass())
		}
		if h.UserInfo == nil || h.UserInfo.GetEffectiveUser() == "" {
			c.Violate("C05 hello conn=%d: no effective user", sc.ID)
		}
		switch cc := h.GetCellBlockCompressorClass(); cc {
		case "":
		case "org.apache.hadoop.io.compress.SnappyCodec":
			sc.Codec = true
		default:
			c.Violate("C05 hello conn=%d: compressor class %q", sc.ID, cc)
		}
	}
	for _, f := range frames {
		sc.FramesIn++
		id := f.Header.GetCallId()
		if sc.callIDs[id] {
			c.Violate("C05 conn=%d: call id %d reused on the connection", sc.ID, id)
		}
		sc.callIDs[id] = true
		req := &Request{Conn: sc, Frame: f, CallID: id, Method: f.Header.GetMethodName()}
		if c.Now != nil {
			req.Arrived = c.Now()
		}
		if c.StepFn != nil {
			req.ArrStep = c.StepFn()
		}
		reqSeq++
		req.Seq = reqSeq
		var msg proto.Message
		switch req.Method {
		case "Get":
			msg = &pb.GetRequest{}
		case "Mutate":
			msg = &pb.MutateRequest{}
		case "Scan":
			msg = &pb.ScanRequest{}
		case "Multi":
			msg = &pb.MultiRequest{}
		case "GetClusterStatus":
			msg = &pb.GetClusterStatusRequest{}
		case "GetTableNames":
			msg = &pb.GetTableNamesRequest{}
		case "SetBalancerRunning":
			msg = &pb.SetBalancerRunningRequest{}
		case "CreateTable":
			msg = &pb.CreateTableRequest{}
		case "DeleteTable":
			msg = &pb.DeleteTableRequest{}
		case "EnableTable":
			msg = &pb.EnableTableRequest{}
		case "DisableTable":
			msg = &pb.DisableTableRequest{}
		case "getProcedureResult":
			msg = &pb.GetProcedureResultRequest{}
		case "MoveRegion":
			msg = &pb.MoveRegionRequest{}
		case "Snapshot":
			msg = &pb.SnapshotRequest{}
		case "IsSnapshotDone":
			msg = &pb.IsSnapshotDoneRequest{}
		case "DeleteSnapshot":
			msg = &pb.DeleteSnapshotRequest{}
		case "GetCompletedSnapshots":
			msg = &pb.GetCompletedSnapshotsRequest{}
		case "RestoreSnapshot":
			msg = &pb.RestoreSnapshotRequest{}
		default:
			c.Violate("C05 conn=%d call=%d: unknown method %q", sc.ID, id, req.Method)
			continue
		}
		if !f.Header.GetRequestParam() {
			c.Violate("C05 conn=%d call=%d: request_param not set", sc.ID, id)
			continue
		}
		if err := proto.Unmarshal(f.Param, msg); err != nil {
			c.Violate("C05 conn=%d call=%d: %s request does not parse: %v", sc.ID, id, req.Method, err)
			continue
		}
		if u := unknownFields(msg); u != "" {
			c.Violate("C05 conn=%d call=%d: %s request has unknown fields in %s", sc.ID, id, req.Method, u)
		}
		req.Msg = msg
		cb := f.CellBlock
		if len(cb) > 0 {
			if sc.Codec {
				dec, err := BlockDecompress(cb)
				if err != nil {
					c.Violate("C05 conn=%d call=%d: compressed cellblock: %v", sc.ID, id, err)
					continue
				}
				cb = dec
			}
			cells, err := DecodeCells(cb)
			if err != nil {
				c.Violate("C05 conn=%d call=%d: cellblock: %v", sc.ID, id, err)
				continue
			}
			req.Cells = cells
		}
		sc.Pending = append(sc.Pending, req)
		if c.OnRequest != nil {
			c.OnRequest(req)
		}
	}
}

// unknownFields reports the first message (path) that carries unknown fields.
func unknownFields(m proto.Message) string {
	var found string
	var walk func(r protoreflect.Message, path string)
	walk = func(r protoreflect.Message, path string) {
		if found != "" {
			return
		}
		if len(r.GetUnknown()) > 0 {
			found = path
			return
		}
		r.Range(func(fd protoreflect.FieldDescriptor, v protoreflect.Value) bool {
			if fd.Kind() != protoreflect.MessageKind && fd.Kind() != protoreflect.GroupKind {
				return true
			}
			p := path + "." + string(fd.Name())
			switch {
			case fd.IsList():
				l := v.List()
				for i := 0; i < l.Len(); i++ {
					walk(l.Get(i).Message(), p)
				}
			case fd.IsMap():
			default:
				walk(v.Message(), p)
			}
			return found == ""
		})
	}
	walk(m.ProtoReflect(), string(m.ProtoReflect().Descriptor().Name()))
	return found
}

// excPair builds the NameBytesPair form of an exception.
func excPair(class, msg string) *pb.NameBytesPair {
	return &pb.NameBytesPair{Name: proto.String(class), Value: []byte(msg)}
}

func (c *Cluster) matchRule(e *Exec, level string) *Rule {
	for _, r := range c.Rules {
		if r.Count == 0 {
			continue
		}
		lv := r.Level
		if lv == "" {
			lv = "action"
		}
		if lv != level {
			continue
		}
		if r.Table != "" && r.Table != e.Table {
			continue
		}
		if r.Region != "" && r.Region != e.Region {
			continue
		}
		if r.Nonce != 0 && r.Nonce != e.Nonce {
			continue
		}
		if r.Server >= 0 && r.Server != e.Server {
			continue
		}
		switch r.Kind {
		case "":
			if e.Nonce == 0 {
				continue
			}
		case "Any":
		case "Probe":
			if e.Kind != "Probe" {
				continue
			}
		case "Mutate":
			if e.Kind != "Put" && e.Kind != "Delete" && e.Kind != "Append" && e.Kind != "Increment" && e.Kind != "CheckAndPut" {
				continue
			}
		case "Scan":
			if !strings.HasPrefix(e.Kind, "Scan") {
				continue
			}
		default:
			if r.Kind != e.Kind {
				continue
			}
		}
		if r.Count > 0 {
			r.Count--
		}
		r.Fired++
		return r
	}
	return nil
}

func (c *Cluster) excMsg(class, msg string, e *Exec) string {
	return fmt.Sprintf("%s: %s nonce=%d seq=%d\n\tat org.apache.hadoop.hbase.sim.Stub(Stub.java:1)", class, msg, e.Nonce, e.Seq)
}

func (c *Cluster) newExec(req *Request, kind string) *Exec {
	c.ExecSeq++
	e := &Exec{Seq: c.ExecSeq, Kind: kind, Server: req.Conn.Server.Idx, Conn: req.Conn.ID, CallID: req.CallID, ReqSeq: req.Seq, Header: req.Frame.Header, ArrStep: req.ArrStep, ArrT: req.Arrived}
	if c.StepFn != nil {
		e.Step = c.StepFn()
	}
	if c.Now != nil {
		e.Time = c.Now()
	}
	return e
}

func (c *Cluster) logExec(e *Exec) {
	c.Execs = append(c.Execs, e)
	if c.OnExec != nil {
		c.OnExec(e)
	}
}

// checkRegion validates the region named in a request against the model and
// the row. It returns the region if the server may execute, or an exception.
func (c *Cluster) checkRegion(e *Exec, spec *pb.RegionSpecifier, row []byte, needRow bool) (*Region, string, string) {
	if spec == nil || spec.GetType() != pb.RegionSpecifier_REGION_NAME {
		c.Violate("C05 call=%d: region specifier missing or not REGION_NAME", e.CallID)
		return nil, ExDoNotRetry, "bad region specifier"
	}
	name := string(spec.GetValue())
	e.Region = name
	srv := c.Servers[e.Server]
	if name == "hbase:meta,,1" {
		e.Table = "hbase:meta"
		if c.Meta != e.Server {
			return nil, ExNotServing, "hbase:meta,,1 is not online on " + srv.Addr
		}
		return &Region{Name: name, Table: "hbase:meta", Server: c.Meta}, "", ""
	}
	r := c.RegionByName(name)
	if r == nil {
		c.Violate("C01 routing: request names region %q which never existed (row %q, server %s)", name, row, srv.Addr)
		return nil, ExNotServing, name + " is not online"
	}
	e.Table = r.Table
	if needRow && !r.Contains(row) && e.Nonce == 0 {
		// an internal request of the client (establishment probe): not a user
		// request, answered as HBase would: the region is looked up first
		// (not serving), then the row is checked (wrong region)
		if r.State != Open || r.Server != e.Server {
			return nil, ExNotServing, name + " is not online on " + srv.Addr
		}
		return nil, ExWrongRegion, fmt.Sprintf("Requested row out of range for row %q", row)
	}
	if needRow && !r.Contains(row) {
		c.Violate("C01 routing: row %q sent to region %q [%q,%q) which never contained it (server %s)", row, name, r.Start, r.Stop, srv.Addr)
		return nil, ExWrongRegion, fmt.Sprintf("Requested row out of range for row %q", row)
	}
	pub := false
	for _, a := range r.Published {
		if a == srv.Addr {
			pub = true
		}
	}
	if !pub {
		c.Violate("C01 routing: request for region %q arrived at %s, which meta never published for it (published: %v)", name, srv.Addr, r.Published)
	}
	if r.State != Open || r.Server != e.Server {
		if r.State == Opening && r.Server == e.Server {
			return nil, ExNotServing, name + " is opening"
		}
		return nil, ExNotServing, name + " is not online on " + srv.Addr
	}
	return r, "", ""
}

func (c *Cluster) nonceOfMutation(m *pb.MutationProto, cells []Cell) uint64 {
	if m.GetMutateType() == pb.MutationProto_DELETE {
		if m.Timestamp != nil {
			return m.GetTimestamp()
		}
		for _, cl := range cells {
			if cl.TS != 0x7fffffffffffffff {
				return cl.TS
			}
		}
		// a delete of the latest version(s) carries no timestamp of its own: it
		// is attributed by its row if the workload registered one
		if c.RowNonce != nil {
			return c.RowNonce(m.GetRow())
		}
		return 0
	}
	for _, c := range cells {
		if len(c.Value) >= 8 {
			return binary.BigEndian.Uint64(c.Value)
		}
	}
	return 0
}

// mutationCells returns the cells of a mutation, whether they travel in
// protobuf or (n of them) at the head of the shared cellblock.
func mutationCells(m *pb.MutationProto, block []Cell) (cells []Cell, rest []Cell, err error) {
	if n := int(m.GetAssociatedCellCount()); n > 0 {
		if n > len(block) {
			return nil, block, fmt.Errorf("associated_cell_count=%d but only %d cells left in the cellblock", n, len(block))
		}
		return block[:n], block[n:], nil
	}
	ts := uint64(0x7fffffffffffffff)
	if m.Timestamp != nil {
		ts = m.GetTimestamp()
	}
	for _, cv := range m.GetColumnValue() {
		for _, qv := range cv.GetQualifierValue() {
			c := Cell{Row: m.GetRow(), Fam: cv.GetFamily(), Qual: qv.GetQualifier(), Value: qv.GetValue(), TS: ts, Type: TypePut}
			if qv.Timestamp != nil {
				c.TS = qv.GetTimestamp()
			}
			if m.GetMutateType() == pb.MutationProto_DELETE {
				switch qv.GetDeleteType() {
				case pb.MutationProto_DELETE_ONE_VERSION:
					c.Type = TypeDelete
				case pb.MutationProto_DELETE_MULTIPLE_VERSIONS:
					c.Type = TypeDeleteColumn
				case pb.MutationProto_DELETE_FAMILY:
					c.Type = TypeDeleteFamily
				case pb.MutationProto_DELETE_FAMILY_VERSION:
					c.Type = TypeDeleteFamilyVersion
				}
			}
			cells = append(cells, c)
		}
	}
	return cells, block, nil
}

func (c *Cluster) row(table string, key []byte) *Row {
	t := c.Tables[table]
	if t == nil {
		t = &Table{Name: table, Rows: map[string]*Row{}}
		c.Tables[table] = t
	}
	r := t.Rows[string(key)]
	if r == nil {
		r = &Row{Key: append([]byte(nil), key...), Cells: map[string][]byte{}}
		t.Rows[string(key)] = r
	}
	return r
}

// applyMutation changes the model and returns result cells and processed flag.
func (c *Cluster) applyMutation(table string, m *pb.MutationProto, cells []Cell, cond *pb.Condition) (res []Cell, processed *bool) {
	row := c.row(table, m.GetRow())
	if cond != nil {
		cur, ok := row.Cells[string(cond.GetFamily())+":"+string(cond.GetQualifier())]
		var want []byte
		if cmp := cond.GetComparator(); cmp != nil {
			bc := &pb.BinaryComparator{}
			if proto.Unmarshal(cmp.GetSerializedComparator(), bc) == nil && bc.Comparable != nil {
				want = bc.Comparable.GetValue()
			}
		}
		match := (len(want) == 0 && !ok) || (ok && bytes.Equal(cur, want))
		processed = proto.Bool(match)
		if !match {
			return nil, processed
		}
	}
	switch m.GetMutateType() {
	case pb.MutationProto_PUT:
		for _, cl := range cells {
			row.Cells[string(cl.Fam)+":"+string(cl.Qual)] = append([]byte(nil), cl.Value...)
		}
	case pb.MutationProto_DELETE:
		if len(cells) == 0 {
			row.Cells = map[string][]byte{}
		}
		for _, cl := range cells {
			switch cl.Type {
			case TypeDeleteFamily, TypeDeleteFamilyVersion:
				p := string(cl.Fam) + ":"
				for k := range row.Cells {
					if strings.HasPrefix(k, p) {
						delete(row.Cells, k)
					}
				}
			default:
				delete(row.Cells, string(cl.Fam)+":"+string(cl.Qual))
			}
		}
	case pb.MutationProto_APPEND:
		for _, cl := range cells {
			k := string(cl.Fam) + ":" + string(cl.Qual)
			row.Cells[k] = append(append([]byte(nil), row.Cells[k]...), cl.Value...)
			res = append(res, Cell{Row: row.Key, Fam: cl.Fam, Qual: cl.Qual, Type: TypePut, Value: row.Cells[k]})
		}
	case pb.MutationProto_INCREMENT:
		for _, cl := range cells {
			k := string(cl.Fam) + ":" + string(cl.Qual)
			var cur uint64
			if v := row.Cells[k]; len(v) == 8 {
				cur = binary.BigEndian.Uint64(v)
			}
			var amt uint64
			if len(cl.Value) == 8 {
				amt = binary.BigEndian.Uint64(cl.Value)
			}
			nv := binary.BigEndian.AppendUint64(nil, cur+amt)
			row.Cells[k] = nv
			res = append(res, Cell{Row: row.Key, Fam: cl.Fam, Qual: cl.Qual, Type: TypePut, Value: nv})
		}
	}
	return res, processed
}

func mutKind(m *pb.MutationProto, cond *pb.Condition) string {
	if cond != nil {
		return "CheckAndPut"
	}
	switch m.GetMutateType() {
	case pb.MutationProto_PUT:
		return "Put"
	case pb.MutationProto_DELETE:
		return "Delete"
	case pb.MutationProto_APPEND:
		return "Append"
	case pb.MutationProto_INCREMENT:
		return "Increment"
	}
	return "Mutate?"
}

func filterCells(cells []Cell, cols []*pb.Column) []Cell {
	if len(cols) == 0 {
		return cells
	}
	var out []Cell
	for _, cl := range cells {
		for _, col := range cols {
			if !bytes.Equal(col.GetFamily(), cl.Fam) {
				continue
			}
			if len(col.GetQualifier()) == 0 {
				out = append(out, cl)
				break
			}
			hit := false
			for _, q := range col.GetQualifier() {
				if bytes.Equal(q, cl.Qual) {
					hit = true
				}
			}
			if hit {
				out = append(out, cl)
				break
			}
		}
	}
	return out
}

func stamp(cells []Cell, seq uint64) []Cell {
	out := make([]Cell, len(cells))
	for i, cl := range cells {
		cl.TS = seq
		out[i] = cl
	}
	return out
}

func encodeCells(cells []Cell) []byte {
	var b []byte
	for _, cl := range cells {
		b = EncodeCell(b, cl)
	}
	return b
}

func pbCells(cells []Cell) []*pb.Cell {
	out := make([]*pb.Cell, len(cells))
	for i, cl := range cells {
		out[i] = &pb.Cell{Row: cl.Row, Family: cl.Fam, Qualifier: cl.Qual, Timestamp: proto.Uint64(cl.TS),
			CellType: pb.CellType(cl.Type).Enum(), Value: cl.Value}
	}
	return out
}

// Execute runs one pending request against the model and returns the response
// frame, or nil if no response is produced (silent server).
func (c *Cluster) Execute(req *Request) []byte {
	srv := req.Conn.Server
	if srv.Silent || !srv.Up {
		return nil
	}
	sc := req.Conn
	finish := func(exc *pb.ExceptionResponse, msg proto.Message, cells []Cell) []byte {
		var cb []byte
		if len(cells) > 0 {
			cb = encodeCells(cells)
			if sc.Codec {
				cb = BlockCompress(cb, c.chunk())
			}
		}
		if exc != nil {
			return EncodeResponse(req.CallID, exc, nil, nil)
		}
		return EncodeResponse(req.CallID, nil, msg, cb)
	}
	hdrExc := func(e *Exec, class, msg string) []byte {
		e.Err, e.ErrLevel = class, "call"
		c.logExec(e)
		exc := &pb.ExceptionResponse{ExceptionClassName: proto.String(class), StackTrace: proto.String(c.excMsg(class, msg, e))}
		if doNotRetryClasses[class] {
			// subclasses of DoNotRetryIOException travel with the do_not_retry hint
			exc.DoNotRetry = proto.Bool(true)
		}
		return finish(exc, nil, nil)
	}
	inPB := c.Rand != nil && c.ScanKnobs.InPB > 0 && c.Rand.Chance(c.ScanKnobs.InPB)

	switch m := req.Msg.(type) {
	case *pb.GetRequest:
		e := c.newExec(req, "Get")
		g := m.GetGet()
		e.Row = g.GetRow()
		e.ReqGet = g
		e.Nonce = c.getNonce(g)
		if e.Nonce == 0 && g.GetExistenceOnly() {
			e.Kind = "Probe"
		}
		e.Region = string(m.GetRegion().GetValue())
		if srv.Aborted != "" {
			return hdrExc(e, srv.Aborted, "server is going down")
		}
		r, class, msg := c.checkRegion(e, m.Region, e.Row, true)
		if r == nil {
			return hdrExc(e, class, msg)
		}
		if rule := c.firstRule(e); rule != nil {
			return hdrExc(e, rule.Class, rule.Msg)
		}
		cells := filterCells(c.RowCells(r.Table, e.Row), g.GetColumn())
		if r.Table == "hbase:meta" {
			cells = nil
		}
		e.Applied = true
		res := &pb.Result{}
		if g.GetExistenceOnly() {
			res.Exists = proto.Bool(len(cells) > 0)
			cells = nil
		}
		cells = stamp(cells, e.Seq)
		e.Cells = cells
		c.logExec(e)
		if inPB {
			res.Cell = pbCells(cells)
			return finish(nil, &pb.GetResponse{Result: res}, nil)
		}
		res.AssociatedCellCount = proto.Int32(int32(len(cells)))
		return finish(nil, &pb.GetResponse{Result: res}, cells)

	case *pb.MutateRequest:
		mu := m.GetMutation()
		e := c.newExec(req, mutKind(mu, m.Condition))
		e.Row = mu.GetRow()
		cells, rest, err := mutationCells(mu, req.Cells)
		if err != nil || len(rest) != 0 {
			c.Violate("C05 call=%d: mutate cellblock does not match associated_cell_count (%v, %d cells left over)", req.CallID, err, len(rest))
		}
		c.checkMutationCells(e, mu, cells)
		e.Nonce = c.nonceOfMutation(mu, cells)
		e.ReqMut, e.ReqCells, e.ReqCond = mu, cells, m.Condition
		e.Region = string(m.GetRegion().GetValue())
		if srv.Aborted != "" {
			return hdrExc(e, srv.Aborted, "server is going down")
		}
		r, class, msg := c.checkRegion(e, m.Region, e.Row, true)
		if r == nil {
			return hdrExc(e, class, msg)
		}
		if rule := c.firstRule(e); rule != nil {
			return hdrExc(e, rule.Class, rule.Msg)
		}
		resCells, processed := c.applyMutation(r.Table, mu, cells, m.Condition)
		e.Applied = true
		resCells = stamp(resCells, e.Seq)
		e.Cells = resCells
		c.logExec(e)
		resp := &pb.MutateResponse{Processed: processed}
		if len(resCells) > 0 {
			if inPB {
				resp.Result = &pb.Result{Cell: pbCells(resCells)}
				return finish(nil, resp, nil)
			}
			resp.Result = &pb.Result{AssociatedCellCount: proto.Int32(int32(len(resCells)))}
		} else if c.Rand != nil && c.Rand.Chance(0.3) {
			resp.Result = &pb.Result{AssociatedCellCount: proto.Int32(0)}
		}
		return finish(nil, resp, resCells)

	case *pb.ScanRequest:
		return c.execScan(req, m, hdrExc, finish)

	case *pb.MultiRequest:
		return c.execMulti(req, m, hdrExc, finish)

	case *pb.GetClusterStatusRequest:
		e := c.newExec(req, "Master")
		e.Nonce = 0
		if resp := c.masterCheck(req, e, hdrExc); resp != nil {
			return resp
		}
		c.logExec(e)
		return finish(nil, &pb.GetClusterStatusResponse{ClusterStatus: &pb.ClusterStatus{
			Master: &pb.ServerName{HostName: proto.String(fmt.Sprintf("master-exec-%d", e.Seq))}}}, nil)
	case *pb.GetTableNamesRequest:
		e := c.newExec(req, "Master")
		if resp := c.masterCheck(req, e, hdrExc); resp != nil {
			return resp
		}
		c.logExec(e)
		var names []*pb.TableName
		var ts []string
		for t := range c.Tables {
			ts = append(ts, t)
		}
		sort.Strings(ts)
		for _, t := range ts {
			names = append(names, &pb.TableName{Namespace: []byte("default"), Qualifier: []byte(t)})
		}
		return finish(nil, &pb.GetTableNamesResponse{TableNames: names}, nil)
	case *pb.SetBalancerRunningRequest:
		e := c.newExec(req, "Master")
		if resp := c.masterCheck(req, e, hdrExc); resp != nil {
			return resp
		}
		c.logExec(e)
		return finish(nil, &pb.SetBalancerRunningResponse{PrevBalanceValue: proto.Bool(e.Seq%2 == 0)}, nil)
	}
	return c.execMaster(req, hdrExc, finish)
}

// Proc is a master procedure: it is reported as running for Polls result
// requests and as finished afterwards, with Fail as its exception if set.
// Procedures survive a master fail-over (they are persisted by a real master).
type Proc struct {
	ID    uint64
	Op    string
	Table string
	Polls int
	Seen  int
	Fail  string
}

// Snap is a snapshot being taken or completed.
type Snap struct {
	Name, Table string
	Polls, Seen int
}

// execMaster handles the administrative requests that start or poll a
// procedure or a snapshot. The model is idempotent: a request the client sends
// again (after a connection died under it) succeeds again.
func (c *Cluster) execMaster(req *Request, hdrExc func(*Exec, string, string) []byte,
	finish func(*pb.ExceptionResponse, proto.Message, []Cell) []byte) []byte {
	e := c.newExec(req, "Master")
	e.Op = req.Method
	start := func(table string) (uint64, []byte) {
		e.Row = []byte(table)
		if resp := c.masterCheck(req, e, hdrExc); resp != nil {
			return 0, resp
		}
		if c.Procs == nil {
			c.Procs = map[uint64]*Proc{}
		}
		c.NextProc++
		pr := &Proc{ID: c.NextProc, Op: req.Method, Table: table, Polls: int(c.NextProc*7+e.Seq) % 4}
		if c.ProcFail != "" && c.NextProc%3 == 0 {
			pr.Fail = c.ProcFail
		}
		c.Procs[pr.ID] = pr
		e.ProcID = pr.ID
		c.logExec(e)
		return pr.ID, nil
	}
	tn := func(t *pb.TableName) string { return string(t.GetNamespace()) + ":" + string(t.GetQualifier()) }
	switch m := req.Msg.(type) {
	case *pb.CreateTableRequest:
		id, resp := start(tn(m.GetTableSchema().GetTableName()))
		if resp != nil {
			return resp
		}
		return finish(nil, &pb.CreateTableResponse{ProcId: proto.Uint64(id)}, nil)
	case *pb.DeleteTableRequest:
		id, resp := start(tn(m.GetTableName()))
		if resp != nil {
			return resp
		}
		return finish(nil, &pb.DeleteTableResponse{ProcId: proto.Uint64(id)}, nil)
	case *pb.EnableTableRequest:
		id, resp := start(tn(m.GetTableName()))
		if resp != nil {
			return resp
		}
		return finish(nil, &pb.EnableTableResponse{ProcId: proto.Uint64(id)}, nil)
	case *pb.DisableTableRequest:
		id, resp := start(tn(m.GetTableName()))
		if resp != nil {
			return resp
		}
		return finish(nil, &pb.DisableTableResponse{ProcId: proto.Uint64(id)}, nil)
	case *pb.GetProcedureResultRequest:
		e.ProcID = m.GetProcId()
		if resp := c.masterCheck(req, e, hdrExc); resp != nil {
			return resp
		}
		c.logExec(e)
		pr := c.Procs[m.GetProcId()]
		if pr == nil {
			return finish(nil, &pb.GetProcedureResultResponse{State: pb.GetProcedureResultResponse_NOT_FOUND.Enum()}, nil)
		}
		pr.Seen++
		if pr.Seen <= pr.Polls {
			return finish(nil, &pb.GetProcedureResultResponse{State: pb.GetProcedureResultResponse_RUNNING.Enum()}, nil)
		}
		out := &pb.GetProcedureResultResponse{State: pb.GetProcedureResultResponse_FINISHED.Enum()}
		if pr.Fail != "" {
			out.Exception = &pb.ForeignExceptionMessage{Source: proto.String("master"), GenericException: &pb.GenericExceptionMessage{
				ClassName: proto.String(pr.Fail), Message: proto.String(fmt.Sprintf("procedure %d failed", pr.ID))}}
		}
		return finish(nil, out, nil)
	case *pb.MoveRegionRequest:
		e.Row = m.GetRegion().GetValue()
		if resp := c.masterCheck(req, e, hdrExc); resp != nil {
			return resp
		}
		c.logExec(e)
		return finish(nil, &pb.MoveRegionResponse{}, nil)
	case *pb.SnapshotRequest:
		e.Row = []byte(m.GetSnapshot().GetName())
		if resp := c.masterCheck(req, e, hdrExc); resp != nil {
			return resp
		}
		c.logExec(e)
		if c.Snaps == nil {
			c.Snaps = map[string]*Snap{}
		}
		c.Snaps[m.GetSnapshot().GetName()] = &Snap{Name: m.GetSnapshot().GetName(), Table: m.GetSnapshot().GetTable(), Polls: int(e.Seq) % 3}
		return finish(nil, &pb.SnapshotResponse{ExpectedTimeout: proto.Int64(60000)}, nil)
	case *pb.IsSnapshotDoneRequest:
		e.Row = []byte(m.GetSnapshot().GetName())
		if resp := c.masterCheck(req, e, hdrExc); resp != nil {
			return resp
		}
		sn := c.Snaps[m.GetSnapshot().GetName()]
		if sn == nil {
			return hdrExc(e, "org.apache.hadoop.hbase.snapshot.UnknownSnapshotException", "no such snapshot")
		}
		c.logExec(e)
		sn.Seen++
		return finish(nil, &pb.IsSnapshotDoneResponse{Done: proto.Bool(sn.Seen > sn.Polls)}, nil)
	case *pb.DeleteSnapshotRequest:
		e.Row = []byte(m.GetSnapshot().GetName())
		if resp := c.masterCheck(req, e, hdrExc); resp != nil {
			return resp
		}
		c.logExec(e)
		delete(c.Snaps, m.GetSnapshot().GetName())
		return finish(nil, &pb.DeleteSnapshotResponse{}, nil)
	case *pb.GetCompletedSnapshotsRequest:
		if resp := c.masterCheck(req, e, hdrExc); resp != nil {
			return resp
		}
		c.logExec(e)
		var names []string
		for n, sn := range c.Snaps {
			if sn.Seen > sn.Polls {
				names = append(names, n)
			}
		}
		sort.Strings(names)
		out := &pb.GetCompletedSnapshotsResponse{}
		for _, n := range names {
			out.Snapshots = append(out.Snapshots, &pb.SnapshotDescription{Name: proto.String(n), Table: proto.String(c.Snaps[n].Table)})
		}
		return finish(nil, out, nil)
	case *pb.RestoreSnapshotRequest:
		e.Row = []byte(m.GetSnapshot().GetName())
		if resp := c.masterCheck(req, e, hdrExc); resp != nil {
			return resp
		}
		c.logExec(e)
		return finish(nil, &pb.RestoreSnapshotResponse{}, nil)
	}
	c.ExecSeq--
	return nil
}

// trNonce extracts the workload's tag from a time range: the lower bound, or
// the upper bound of a range that is open at the start.
func trNonce(tr *pb.TimeRange) uint64 {
	if tr == nil {
		return 0
	}
	if f := tr.GetFrom(); f != 0 {
		return f
	}
	if tr.To != nil {
		return tr.GetTo()
	}
	return 0
}

// getNonce is trNonce for a Get; a Get without any time range is attributed
// by its row if the workload registered one (RowNonce).
func (c *Cluster) getNonce(g *pb.Get) uint64 {
	if n := trNonce(g.GetTimeRange()); n != 0 {
		return n
	}
	if c.RowNonce != nil && !g.GetExistenceOnly() {
		return c.RowNonce(g.GetRow())
	}
	return 0
}

func (c *Cluster) masterCheck(req *Request, e *Exec, hdrExc func(*Exec, string, string) []byte) []byte {
	srv := req.Conn.Server
	e.Table = "master"
	e.Kind = "Master"
	if srv.Aborted != "" {
		return hdrExc(e, srv.Aborted, "master is going down")
	}
	if c.Master != srv.Idx {
		return hdrExc(e, ExMasterStop, "not the active master")
	}
	if rule := c.matchRule(e, "action"); rule != nil {
		return hdrExc(e, rule.Class, rule.Msg)
	}
	return nil
}

// firstRule evaluates call/region/action level rules for a single call.
func (c *Cluster) firstRule(e *Exec) *Rule {
	for _, lv := range []string{"call", "region", "action"} {
		if r := c.matchRule(e, lv); r != nil {
			return r
		}
	}
	return nil
}

func (c *Cluster) chunk() int {
	if c.ChunkLen > 0 {
		return c.ChunkLen
	}
	return SnappyChunk
}

// checkMutationCells validates the internal consistency of a mutation's cells.
func (c *Cluster) checkMutationCells(e *Exec, m *pb.MutationProto, cells []Cell) {
	for _, cl := range cells {
		if !bytes.Equal(cl.Row, m.GetRow()) {
			c.Violate("C05 call=%d: cell row %q differs from mutation row %q", e.CallID, cl.Row, m.GetRow())
		}
		isDel := cl.Type != TypePut
		if (m.GetMutateType() == pb.MutationProto_DELETE) != isDel {
			c.Violate("C05 call=%d: cell type %d inconsistent with mutation type %v", e.CallID, cl.Type, m.GetMutateType())
		}
	}
}

// ---- multi ----

func (c *Cluster) execMulti(req *Request, m *pb.MultiRequest,
	hdrExc func(*Exec, string, string) []byte,
	finish func(*pb.ExceptionResponse, proto.Message, []Cell) []byte) []byte {
	srv := req.Conn.Server
	c.ExecSeq++
	multiSeq := c.ExecSeq
	block := req.Cells
	resp := &pb.MultiResponse{}
	var outCells []Cell
	seenIdx := map[uint32]bool{}
	if srv.Aborted != "" {
		e := c.newExec(req, "Multi")
		e.Multi = multiSeq
		return hdrExc(e, srv.Aborted, "server is going down")
	}
	// call-level rule: evaluated against a pseudo exec carrying the first nonce
	type act struct {
		a     *pb.Action
		e     *Exec
		cells []Cell
	}
	type ra struct {
		region *Region
		class  string
		msg    string
		acts   []act
		name   string
	}
	var ras []ra
	for ri, rac := range m.GetRegionAction() {
		x := ra{}
		for ai, a := range rac.GetAction() {
			var e *Exec
			var cells []Cell
			switch {
			case a.Get != nil:
				e = c.newExec(req, "Get")
				e.Row = a.Get.GetRow()
				e.ReqGet = a.Get
				e.Nonce = c.getNonce(a.Get)
			case a.Mutation != nil:
				e = c.newExec(req, mutKind(a.Mutation, nil))
				e.Row = a.Mutation.GetRow()
				var err error
				cells, block, err = mutationCells(a.Mutation, block)
				if err != nil {
					c.Violate("C05 call=%d multi: %v", req.CallID, err)
				}
				c.checkMutationCells(e, a.Mutation, cells)
				e.Nonce = c.nonceOfMutation(a.Mutation, cells)
				e.ReqMut, e.ReqCells = a.Mutation, cells
			default:
				c.Violate("C05 call=%d multi: action without get or mutation", req.CallID)
				e = c.newExec(req, "Empty")
			}
			e.Multi, e.RegPos, e.MultiPos = multiSeq, ri, ai
			if a.Index == nil || a.GetIndex() == 0 {
				c.Violate("C05 call=%d multi: action without index", req.CallID)
			} else if seenIdx[a.GetIndex()] {
				c.Violate("C05 call=%d multi: duplicate action index %d", req.CallID, a.GetIndex())
			}
			seenIdx[a.GetIndex()] = true
			x.acts = append(x.acts, act{a, e, cells})
		}
		if len(x.acts) == 0 {
			c.Violate("C05 call=%d multi: empty region action", req.CallID)
		}
		// region check per action (row containment), region level state once
		var first *Exec
		if len(x.acts) > 0 {
			first = x.acts[0].e
		} else {
			first = c.newExec(req, "Empty")
		}
		x.region, x.class, x.msg = c.checkRegion(first, rac.Region, first.Row, len(x.acts) > 0)
		x.name = first.Region
		for _, a := range x.acts[min(1, len(x.acts)):] {
			a.e.Region, a.e.Table = first.Region, first.Table
			if r := c.RegionByName(first.Region); r != nil && !r.Contains(a.e.Row) {
				c.Violate("C01 routing: row %q sent (multi) to region %q [%q,%q) which never contained it", a.e.Row, r.Name, r.Start, r.Stop)
				if x.region != nil {
					x.region, x.class, x.msg = nil, ExWrongRegion, "row out of range"
				}
			}
		}
		ras = append(ras, x)
	}
	if len(block) != 0 {
		c.Violate("C05 call=%d multi: %d cells left over in the cellblock after all actions", req.CallID, len(block))
	}
	// whole-call rule
	for _, x := range ras {
		for _, a := range x.acts {
			if rule := c.matchRule(a.e, "call"); rule != nil {
				for _, y := range ras {
					for _, b := range y.acts {
						b.e.Err, b.e.ErrLevel = rule.Class, "call"
						c.logExec(b.e)
					}
				}
				me := c.newExec(req, "Multi")
				me.Multi = multiSeq
				return hdrExc(me, rule.Class, rule.Msg)
			}
		}
	}
	for _, x := range ras {
		rar := &pb.RegionActionResult{}
		resp.RegionActionResult = append(resp.RegionActionResult, rar)
		fail := func(class, msg string) {
			for _, a := range x.acts {
				a.e.Err, a.e.ErrLevel = class, "region"
				c.logExec(a.e)
			}
			e0 := &Exec{Seq: multiSeq}
			rar.Exception = excPair(class, c.excMsg(class, msg+" region="+x.name, e0))
		}
		if x.region == nil {
			fail(x.class, x.msg)
			continue
		}
		var regionRule *Rule
		for _, a := range x.acts {
			if regionRule = c.matchRule(a.e, "region"); regionRule != nil {
				break
			}
		}
		if regionRule != nil {
			fail(regionRule.Class, regionRule.Msg)
			continue
		}
		type roeCells struct {
			roe   *pb.ResultOrException
			cells []Cell
		}
		var roes []roeCells
		for _, a := range x.acts {
			roe := &pb.ResultOrException{Index: a.a.Index}
			if rule := c.matchRule(a.e, "action"); rule != nil {
				a.e.Err, a.e.ErrLevel = rule.Class, "action"
				c.logExec(a.e)
				roe.Exception = excPair(rule.Class, c.excMsg(rule.Class, rule.Msg, a.e))
				roes = append(roes, roeCells{roe, nil})
				continue
			}
			var cells []Cell
			res := &pb.Result{}
			if a.a.Get != nil {
				cells = filterCells(c.RowCells(x.region.Table, a.e.Row), a.a.Get.GetColumn())
				if a.a.Get.GetExistenceOnly() {
					res.Exists = proto.Bool(len(cells) > 0)
					cells = nil
				}
			} else if a.a.Mutation != nil {
				cells, _ = c.applyMutation(x.region.Table, a.a.Mutation, a.cells, nil)
			}
			cells = stamp(cells, a.e.Seq)
			a.e.Applied = true
			a.e.Cells = cells
			c.logExec(a.e)
			res.AssociatedCellCount = proto.Int32(int32(len(cells)))
			roe.Result = res
			roes = append(roes, roeCells{roe, cells})
		}
		// permute result order within the region (results are matched by index)
		if c.Rand != nil && c.PermuteMulti && len(roes) > 1 {
			for i := len(roes) - 1; i > 0; i-- {
				j := c.Rand.Intn(i + 1)
				roes[i], roes[j] = roes[j], roes[i]
			}
		}
		for _, rc := range roes {
			rar.ResultOrException = append(rar.ResultOrException, rc.roe)
			outCells = append(outCells, rc.cells...)
		}
	}
	return finish(nil, resp, outCells)
}

// ---- scans ----

// Scanner is a server-side region scanner.
type Scanner struct {
	ID       uint64
	Region   *Region
	Table    string
	Server   int
	Conn     int
	Nonce    uint64
	Keys     [][]byte // rows of this region scanner in scan order (snapshot at open)
	Pos      int      // next row to return
	Frag     int      // next cell of Keys[Pos] to return (when cut into fragments)
	Reversed bool
	Start    []byte
	Stop     []byte
	cells    func([]byte) []Cell
	Columns  []*pb.Column
	Opened   uint64 // exec seq
	Renewed  int
	LastUse  int64
}

// OpenScanners returns the ids of scanners open on live servers.
func (c *Cluster) OpenScanners() []uint64 {
	var ids []uint64
	for id := range c.Scanners {
		ids = append(ids, id)
	}
	sort.Slice(ids, func(i, j int) bool { return ids[i] < ids[j] })
	return ids
}

func (c *Cluster) execScan(req *Request, m *pb.ScanRequest,
	hdrExc func(*Exec, string, string) []byte,
	finish func(*pb.ExceptionResponse, proto.Message, []Cell) []byte) []byte {
	srv := req.Conn.Server
	var sc *Scanner
	e := c.newExec(req, "ScanNext")
	e.ReqScan = m
	if srv.Aborted != "" {
		return hdrExc(e, srv.Aborted, "server is going down")
	}
	if m.ScannerId != nil {
		e.ScannerID = m.GetScannerId()
		sc = c.Scanners[m.GetScannerId()]
		if m.GetCloseScanner() {
			e.Kind = "ScanClose"
		} else if m.GetRenew() {
			e.Kind = "ScanRenew"
		}
		if sc == nil || sc.Server != srv.Idx {
			e.Table = "?"
			if m.GetCloseScanner() {
				// closing an unknown scanner is harmless
				c.logExec(e)
				return finish(nil, &pb.ScanResponse{MoreResults: proto.Bool(false)}, nil)
			}
			return hdrExc(e, ExUnknownScan, fmt.Sprintf("Unknown scanner '%d'", m.GetScannerId()))
		}
		e.Nonce, e.Table, e.Region = sc.Nonce, sc.Table, sc.Region.Name
		if sc.Region.Name != "hbase:meta,,1" && (sc.Region.State != Open || sc.Region.Server != srv.Idx) {
			delete(c.Scanners, sc.ID)
			return hdrExc(e, ExNotServing, sc.Region.Name+" is not online")
		}
		if rule := c.firstRule(e); rule != nil {
			return hdrExc(e, rule.Class, rule.Msg)
		}
		if m.GetCloseScanner() {
			delete(c.Scanners, sc.ID)
			e.Applied = true
			c.logExec(e)
			return finish(nil, &pb.ScanResponse{ScannerId: m.ScannerId, MoreResults: proto.Bool(false)}, nil)
		}
		if m.GetRenew() {
			sc.Renewed++
			e.Applied = true
			c.logExec(e)
			return finish(nil, &pb.ScanResponse{ScannerId: m.ScannerId, MoreResults: proto.Bool(true), MoreResultsInRegion: proto.Bool(true)}, nil)
		}
	} else {
		e.Kind = "ScanOpen"
		s := m.GetScan()
		if s == nil {
			c.Violate("C05 call=%d: scan request with neither scanner id nor scan", req.CallID)
			return hdrExc(e, ExDoNotRetry, "bad scan")
		}
		e.Row = s.GetStartRow()
		e.Nonce = trNonce(s.TimeRange)
		// the region must contain the start row (for a reversed scan, the
		// row at or before it): validated against the model by the oracle of
		// C01 through checkRegion for forward scans only.
		r, class, msg := c.checkRegion(e, m.Region, e.Row, false)
		if r == nil {
			return hdrExc(e, class, msg)
		}
		if r.Table == "hbase:meta" {
			e.Kind = "Meta"
		}
		if rule := c.firstRule(e); rule != nil {
			return hdrExc(e, rule.Class, rule.Msg)
		}
		keys, cmp, cells := c.tableRows(r.Table)
		sc = &Scanner{Region: r, Table: r.Table, Server: srv.Idx, Conn: req.Conn.ID, Nonce: e.Nonce,
			Reversed: s.GetReversed(), Start: s.GetStartRow(), Stop: s.GetStopRow(), cells: cells, Columns: s.GetColumn(), Opened: e.Seq}
		inRegion := func(k []byte) bool { return r.Table == "hbase:meta" || r.Contains(k) }
		if !sc.Reversed {
			for _, k := range keys {
				if !inRegion(k) {
					continue
				}
				if len(sc.Start) > 0 && cmp(k, sc.Start) < 0 {
					continue
				}
				if len(sc.Stop) > 0 && cmp(k, sc.Stop) >= 0 {
					continue
				}
				sc.Keys = append(sc.Keys, k)
			}
		} else {
			for i := len(keys) - 1; i >= 0; i-- {
				k := keys[i]
				if !inRegion(k) {
					continue
				}
				if len(sc.Start) > 0 && cmp(k, sc.Start) > 0 {
					continue
				}
				if len(sc.Stop) > 0 && cmp(k, sc.Stop) <= 0 {
					continue
				}
				sc.Keys = append(sc.Keys, k)
			}
		}
		if c.ScanKnobs.ZeroID && !c.zeroIDGiven && sc.Table != "hbase:meta" {
			// a server that counts its scanner ids from 0: a legal id
			c.zeroIDGiven = true
			sc.ID = 0
		} else {
			c.nextScan++
			sc.ID = c.nextScan
		}
		c.Scanners[sc.ID] = sc
		e.ScannerID = sc.ID
	}
	// produce results
	limit := int(m.GetNumberOfRows())
	if m.NumberOfRows == nil || limit <= 0 {
		limit = 1 << 30
	}
	if m.ScannerId == nil && m.GetNumberOfRows() == 0 && m.NumberOfRows != nil {
		limit = 0
	}
	n := len(sc.Keys) - sc.Pos
	if n > limit {
		n = limit
	}
	knobs := c.ScanKnobs
	chunky := knobs.Chunky && c.Rand != nil && sc.Table != "hbase:meta"
	if chunky && n > 0 {
		if c.Rand.Chance(knobs.Heartbeat) {
			n = 0
		} else {
			n = 1 + c.Rand.Intn(n)
		}
	}
	type piece struct {
		cells   []Cell
		partial bool
	}
	var pieces []piece
	for i := 0; i < n; i++ {
		k := sc.Keys[sc.Pos]
		cells := filterCells(sc.cells(k), sc.Columns)
		if sc.Frag > len(cells) {
			sc.Frag = len(cells) // the row shrank under a concurrent mutation
		}
		cells = cells[sc.Frag:]
		if chunky && m.GetClientHandlesPartials() && len(cells) > 1 && c.Rand.Chance(knobs.Partial) {
			// cut: return a fragment; maybe stop the response here
			take := 1 + c.Rand.Intn(len(cells)-1)
			pieces = append(pieces, piece{cells[:take], true})
			sc.Frag += take
			if c.Rand.Chance(0.5) {
				break
			}
			i--
			continue
		}
		last := piece{cells, false}
		if chunky && m.GetClientHandlesPartials() && c.Rand.Chance(knobs.Partial/4) {
			last.partial = true // "may have more cells in row": legal on a final fragment
		}
		if len(cells) > 0 {
			pieces = append(pieces, last)
		}
		sc.Pos++
		sc.Frag = 0
	}
	moreInRegion := sc.Pos < len(sc.Keys)
	if chunky && !moreInRegion && c.Rand.Chance(0.4) && !m.GetCloseScanner() {
		moreInRegion = true // the server may learn about exhaustion only on the next call
	}
	if !moreInRegion && sc.Pos < len(sc.Keys) {
		panic("unreachable")
	}
	// more_results=false only if nothing of the scan range remains anywhere
	moreResults := true
	if sc.Pos >= len(sc.Keys) && !c.scanRangeContinues(sc) {
		if !chunky || c.Rand.Chance(0.5) {
			moreResults = false
		}
	}
	resp := &pb.ScanResponse{ScannerId: proto.Uint64(sc.ID), MoreResults: proto.Bool(moreResults),
		MoreResultsInRegion: proto.Bool(moreInRegion), Ttl: proto.Uint32(60000)}
	if len(pieces) == 0 && moreInRegion {
		resp.HeartbeatMessage = proto.Bool(true)
	} else if chunky && moreInRegion && m.GetClientHandlesHeartbeats() && c.Rand.Chance(knobs.Heartbeat) {
		// the time limit was reached after some rows had been collected: the
		// response is flagged as a heartbeat and carries them
		resp.HeartbeatMessage = proto.Bool(true)
	}
	var all []Cell
	inPB := c.Rand != nil && knobs.InPB > 0 && c.Rand.Chance(knobs.InPB)
	for _, p := range pieces {
		cs := stamp(p.cells, e.Seq)
		all = append(all, cs...)
		if inPB {
			resp.Results = append(resp.Results, &pb.Result{Cell: pbCells(cs), Partial: proto.Bool(p.partial)})
		} else {
			resp.CellsPerResult = append(resp.CellsPerResult, uint32(len(cs)))
			resp.PartialFlagPerResult = append(resp.PartialFlagPerResult, p.partial)
		}
	}
	e.Applied = true
	e.Cells = all
	e.MoreInRegion, e.MoreResults = proto.Bool(moreInRegion), proto.Bool(moreResults)
	if !moreInRegion || m.GetCloseScanner() {
		delete(c.Scanners, sc.ID)
	}
	c.logExec(e)
	if inPB {
		return finish(nil, resp, nil)
	}
	return finish(nil, resp, all)
}

// scanRangeContinues reports whether rows of the scan's range exist beyond
// the scanner's region in scan direction.
func (c *Cluster) scanRangeContinues(sc *Scanner) bool {
	if sc.Table == "hbase:meta" {
		return false
	}
	keys, _, _ := c.tableRows(sc.Table)
	for _, k := range keys {
		if !sc.Reversed {
			if len(sc.Region.Stop) == 0 || bytes.Compare(k, sc.Region.Stop) < 0 {
				continue
			}
			if len(sc.Stop) > 0 && bytes.Compare(k, sc.Stop) >= 0 {
				continue
			}
			return true
		}
		if bytes.Compare(k, sc.Region.Start) >= 0 {
			continue
		}
		if len(sc.Stop) > 0 && bytes.Compare(k, sc.Stop) <= 0 {
			continue
		}
		return true
	}
	return false
}
