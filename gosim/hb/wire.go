// Package hb is the simulated HBase cluster: an executable reference model
// (tables, regions, hbase:meta, regionservers, master, scanners) plus a wire
// codec written from the HBase RPC specification, independently of
// gohbase's region/ and hrpc/ packages. Protobuf messages are decoded with
// the repository's generated pb package (trusted).
package hb

import (
	"encoding/binary"
	"errors"
	"fmt"

	"github.com/golang/snappy"
	"github.com/tsuna/gohbase/pb"
	"google.golang.org/protobuf/encoding/protowire"
	"google.golang.org/protobuf/proto"
)

// Cell is a decoded KeyValue.
type Cell struct {
	Row   []byte
	Fam   []byte
	Qual  []byte
	TS    uint64
	Type  byte
	Value []byte
}

func (c Cell) String() string {
	return fmt.Sprintf("%q/%q:%q/%d/%d=%q", c.Row, c.Fam, c.Qual, c.TS, c.Type, c.Value)
}

// KeyValue cell types.
const (
	TypePut                 = 4
	TypeDelete              = 8
	TypeDeleteFamilyVersion = 10
	TypeDeleteColumn        = 12
	TypeDeleteFamily        = 14
)

// EncodeCell appends the KeyValue encoding of c (with its 4-byte length prefix).
func EncodeCell(b []byte, c Cell) []byte {
	keyLen := 2 + len(c.Row) + 1 + len(c.Fam) + len(c.Qual) + 8 + 1
	kvLen := 4 + 4 + keyLen + len(c.Value)
	b = binary.BigEndian.AppendUint32(b, uint32(kvLen))
	b = binary.BigEndian.AppendUint32(b, uint32(keyLen))
	b = binary.BigEndian.AppendUint32(b, uint32(len(c.Value)))
	b = binary.BigEndian.AppendUint16(b, uint16(len(c.Row)))
	b = append(b, c.Row...)
	b = append(b, byte(len(c.Fam)))
	b = append(b, c.Fam...)
	b = append(b, c.Qual...)
	b = binary.BigEndian.AppendUint64(b, c.TS)
	b = append(b, c.Type)
	b = append(b, c.Value...)
	return b
}

// DecodeCell decodes one length-prefixed KeyValue and returns the rest.
func DecodeCell(b []byte) (Cell, []byte, error) {
	var c Cell
	if len(b) < 4 {
		return c, nil, errors.New("cellblock: truncated kv length")
	}
	kvLen := int(binary.BigEndian.Uint32(b))
	b = b[4:]
	if kvLen < 8 || kvLen > len(b) {
		return c, nil, fmt.Errorf("cellblock: kv length %d exceeds buffer %d", kvLen, len(b))
	}
	kv, rest := b[:kvLen], b[kvLen:]
	keyLen := int(binary.BigEndian.Uint32(kv))
	valLen := int(binary.BigEndian.Uint32(kv[4:]))
	if keyLen < 12 || 8+keyLen+valLen != kvLen {
		return c, nil, fmt.Errorf("cellblock: key %d + value %d + 8 != kv %d", keyLen, valLen, kvLen)
	}
	key, val := kv[8:8+keyLen], kv[8+keyLen:]
	rowLen := int(binary.BigEndian.Uint16(key))
	if 2+rowLen+1 > len(key) {
		return c, nil, errors.New("cellblock: row length exceeds key")
	}
	c.Row = key[2 : 2+rowLen]
	famLen := int(key[2+rowLen])
	p := 2 + rowLen + 1
	if p+famLen+9 > len(key) {
		return c, nil, errors.New("cellblock: family length exceeds key")
	}
	c.Fam = key[p : p+famLen]
	p += famLen
	c.Qual = key[p : len(key)-9]
	c.TS = binary.BigEndian.Uint64(key[len(key)-9:])
	c.Type = key[len(key)-1]
	c.Value = val
	return c, rest, nil
}

// DecodeCells decodes a whole cellblock.
func DecodeCells(b []byte) ([]Cell, error) {
	var out []Cell
	for len(b) > 0 {
		c, rest, err := DecodeCell(b)
		if err != nil {
			return out, err
		}
		out = append(out, c)
		b = rest
	}
	return out, nil
}

// SnappyChunk is the chunk size Hadoop's SnappyCodec block stream uses with
// HBase's default 256 KiB buffer: (256K - overhead), the value the property
// text quotes.
const SnappyChunk = 218421

// BlockCompress encodes b as one Hadoop block-compressed stream block with
// chunks of at most chunk bytes (raw snappy per chunk).
func BlockCompress(b []byte, chunk int) []byte {
	out := binary.BigEndian.AppendUint32(nil, uint32(len(b)))
	for len(b) > 0 {
		n := len(b)
		if n > chunk {
			n = chunk
		}
		enc := snappy.Encode(nil, b[:n])
		out = binary.BigEndian.AppendUint32(out, uint32(len(enc)))
		out = append(out, enc...)
		b = b[n:]
	}
	return out
}

// BlockDecompress decodes a Hadoop block-compressed stream (one or more blocks).
func BlockDecompress(b []byte) ([]byte, error) {
	var out []byte
	for len(b) > 0 {
		if len(b) < 4 {
			return nil, errors.New("blockstream: truncated block length")
		}
		total := int(binary.BigEndian.Uint32(b))
		b = b[4:]
		got := 0
		for got < total {
			if len(b) < 4 {
				return nil, errors.New("blockstream: truncated chunk length")
			}
			cl := int(binary.BigEndian.Uint32(b))
			b = b[4:]
			if cl > len(b) {
				return nil, errors.New("blockstream: chunk exceeds buffer")
			}
			dec, err := snappy.Decode(nil, b[:cl])
			if err != nil {
				return nil, fmt.Errorf("blockstream: %v", err)
			}
			out = append(out, dec...)
			got += len(dec)
			b = b[cl:]
		}
		if got != total {
			return nil, fmt.Errorf("blockstream: block declared %d bytes, chunks hold %d", total, got)
		}
	}
	return out, nil
}

// Frame is one decoded request frame.
type Frame struct {
	Header    *pb.RequestHeader
	Param     []byte // delimited request bytes (undecoded)
	CellBlock []byte // trailing cellblock bytes, still compressed if a codec is on
	Raw       int    // total frame size including the 4-byte prefix
}

// StreamParser consumes the bytes a client writes on one connection.
type StreamParser struct {
	buf      []byte
	gotHello bool
	Hello    *pb.ConnectionHeader
	Err      error // first protocol error; sticky
	Consumed int
}

const preamble = "HBas\x00\x50"

// Unparsed returns the bytes received that do not yet form a complete frame,
// and whether the connection header has been seen.
func (p *StreamParser) Unparsed() ([]byte, bool) { return p.buf, p.gotHello }

// Feed appends bytes and returns the frames completed by them. After a
// protocol error Err is set and no further frames are returned.
func (p *StreamParser) Feed(b []byte) []*Frame {
	if p.Err != nil {
		return nil
	}
	p.buf = append(p.buf, b...)
	var out []*Frame
	for {
		if !p.gotHello {
			if len(p.buf) < len(preamble)+4 {
				if len(p.buf) > 0 && p.buf[0] != 'H' {
					p.Err = fmt.Errorf("connection does not start with the HBase preamble: % x", head(p.buf, 16))
				}
				return out
			}
			if string(p.buf[:len(preamble)]) != preamble {
				p.Err = fmt.Errorf("bad preamble % x", p.buf[:len(preamble)])
				return out
			}
			n := int(binary.BigEndian.Uint32(p.buf[len(preamble):]))
			if n > 1<<20 {
				p.Err = fmt.Errorf("connection header length %d", n)
				return out
			}
			if len(p.buf) < len(preamble)+4+n {
				return out
			}
			h := &pb.ConnectionHeader{}
			if err := (proto.UnmarshalOptions{DiscardUnknown: false}).Unmarshal(p.buf[len(preamble)+4:len(preamble)+4+n], h); err != nil {
				p.Err = fmt.Errorf("connection header: %v", err)
				return out
			}
			if len(h.ProtoReflect().GetUnknown()) != 0 {
				p.Err = errors.New("connection header has unknown fields")
				return out
			}
			p.Hello = h
			p.gotHello = true
			p.Consumed += len(preamble) + 4 + n
			p.buf = p.buf[len(preamble)+4+n:]
			continue
		}
		if len(p.buf) < 4 {
			return out
		}
		n := int(binary.BigEndian.Uint32(p.buf))
		if n > 64<<20 || n < 2 {
			p.Err = fmt.Errorf("frame length %d is not plausible (stream out of sync?) next bytes % x", n, head(p.buf, 24))
			return out
		}
		if len(p.buf) < 4+n {
			return out
		}
		body := p.buf[4 : 4+n]
		f, err := parseFrame(body)
		if err != nil {
			p.Err = fmt.Errorf("frame of %d bytes: %v", n, err)
			return out
		}
		f.Raw = 4 + n
		out = append(out, f)
		p.Consumed += 4 + n
		p.buf = p.buf[4+n:]
	}
}

// Pending returns the number of bytes buffered that do not form a full frame.
func (p *StreamParser) Pending() int { return len(p.buf) }

func head(b []byte, n int) []byte {
	if len(b) > n {
		return b[:n]
	}
	return b
}

func parseFrame(body []byte) (*Frame, error) {
	hb, n := protowire.ConsumeBytes(body)
	if n < 0 {
		return nil, fmt.Errorf("header delimiter: %v", protowire.ParseError(n))
	}
	h := &pb.RequestHeader{}
	if err := proto.Unmarshal(hb, h); err != nil {
		return nil, fmt.Errorf("request header: %v", err)
	}
	if len(h.ProtoReflect().GetUnknown()) != 0 {
		return nil, errors.New("request header has unknown fields")
	}
	if h.CallId == nil {
		return nil, errors.New("request header without call id")
	}
	if h.MethodName == nil {
		return nil, errors.New("request header without method name")
	}
	rest := body[n:]
	f := &Frame{Header: h}
	if h.GetRequestParam() {
		pbz, m := protowire.ConsumeBytes(rest)
		if m < 0 {
			return nil, fmt.Errorf("request delimiter: %v", protowire.ParseError(m))
		}
		f.Param = pbz
		rest = rest[m:]
	}
	cl := 0
	if h.CellBlockMeta != nil {
		cl = int(h.CellBlockMeta.GetLength())
	}
	if cl != len(rest) {
		return nil, fmt.Errorf("cell_block_meta.length=%d but %d bytes follow the request", cl, len(rest))
	}
	f.CellBlock = rest
	return f, nil
}

// EncodeResponse builds a response frame.
func EncodeResponse(callID uint32, exc *pb.ExceptionResponse, msg proto.Message, cellblock []byte) []byte {
	h := &pb.ResponseHeader{CallId: proto.Uint32(callID), Exception: exc}
	if len(cellblock) > 0 {
		h.CellBlockMeta = &pb.CellBlockMeta{Length: proto.Uint32(uint32(len(cellblock)))}
	}
	return EncodeResponseRaw(h, msg, cellblock)
}

// EncodeResponseRaw builds a response frame from an explicit header (used by
// corruption faults to build structurally inconsistent frames).
func EncodeResponseRaw(h *pb.ResponseHeader, msg proto.Message, cellblock []byte) []byte {
	hb, err := proto.Marshal(h)
	if err != nil {
		panic(err)
	}
	body := protowire.AppendBytes(nil, hb)
	if msg != nil {
		mb, err := proto.Marshal(msg)
		if err != nil {
			panic(err)
		}
		body = protowire.AppendBytes(body, mb)
	}
	body = append(body, cellblock...)
	out := binary.BigEndian.AppendUint32(nil, uint32(len(body)))
	return append(out, body...)
}
