// simworker runs simulated executions: one OS process, many seeds.
package main

import (
	"encoding/json"
	"flag"
	"fmt"
	"os"

	"gosim/rng"
	"gosim/sim"
)

func main() {
	profile := flag.String("profile", "smoke", "profile name")
	from := flag.Uint64("from", 1, "first seed")
	n := flag.Int("n", 1, "number of seeds")
	keep := flag.Bool("trace", false, "keep and print the event trace")
	flag.Parse()
	pr := sim.Profiles[*profile]
	if pr == nil {
		fmt.Fprintln(os.Stderr, "unknown profile", *profile)
		os.Exit(2)
	}
	enc := json.NewEncoder(os.Stdout)
	for i := 0; i < *n; i++ {
		seed := *from + uint64(i)
		fmt.Printf("RUN %d\n", seed)
		p := pr.Generate(seed, rng.New(rng.Derive(seed, 77)))
		out := sim.RunPlan(pr, p, *keep)
		if *keep {
			for _, l := range out.Trace {
				fmt.Println(l)
			}
			out.Trace = nil
		}
		enc.Encode(out)
	}
}
