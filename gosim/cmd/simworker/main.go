// simworker runs simulated executions: one OS process, many seeds.
//
//	simworker -profile P -from S -stride K -n N      run seeds S, S+K, ... (N of them)
//	simworker -replay file.json                      re-run a replay file, exit 1 if the violation reproduces, 3 if not
//	simworker -runplan plan.json                     run one plan, print its outcome
//	simworker -minimise file.json -out min.json      shrink the plan of a replay file
package main

import (
	"crypto/sha256"
	"encoding/hex"
	"encoding/json"
	"flag"
	"fmt"
	simrt "github.com/tsuna/gohbase/verifsimrt"
	"os"
	"os/signal"
	"runtime"
	"sort"
	"strings"
	"sync/atomic"
	"syscall"
	"time"

	"gosim/rng"
	"gosim/sim"
)

type summary struct {
	Type       string            `json:"type"`
	Profile    string            `json:"profile"`
	Runs       int               `json:"runs"`
	Nontrivial int               `json:"nontrivial"`
	Digests    []string          `json:"digests"` // of non-trivial runs
	Steps      uint64            `json:"steps"`
	FakeNS     int64             `json:"fake_ns"`
	Reasons    map[string]int    `json:"reasons"`
	FaultKinds map[string]int    `json:"fault_kinds"`
	Probes     map[string]int    `json:"probes"`
	Extra      map[string]int    `json:"extra"`
	Leaked     int               `json:"leaked"`
	Samples    []json.RawMessage `json:"samples"`
	WallS      float64           `json:"wall_s"`
	Violations int               `json:"violations"`
	FirstSeed  uint64            `json:"first_seed"`
	LastSeed   uint64            `json:"last_seed"`
	AllDigest  string            `json:"all_digest"`
	Known      map[string]int    `json:"known"`
}

type knownFinding struct{ prop, oracle, match string }

func loadKnown(path string) []knownFinding {
	var ks []knownFinding
	b, err := os.ReadFile(path)
	if err != nil {
		return nil
	}
	for _, line := range strings.Split(string(b), "\n") {
		line = strings.TrimSpace(line)
		if !strings.HasPrefix(line, "known:") {
			continue
		}
		if i := strings.Index(line, " # "); i >= 0 {
			line = line[:i]
		}
		var k knownFinding
		for _, f := range strings.Fields(line[6:]) {
			switch {
			case strings.HasPrefix(f, "property="):
				k.prop = f[9:]
			case strings.HasPrefix(f, "oracle="):
				k.oracle = f[7:]
			case strings.HasPrefix(f, "match="):
				k.match = strings.ReplaceAll(f[6:], "_", " ")
			}
		}
		ks = append(ks, k)
	}
	return ks
}

// ReplayFile is what is written under replays/.
type ReplayFile struct {
	Property  string          `json:"property"`
	Profile   string          `json:"profile"`
	Seed      uint64          `json:"seed"`
	Plan      *sim.Plan       `json:"plan"`
	Violation sim.Violation   `json:"violation"`
	All       []sim.Violation `json:"all_violations,omitempty"`
	Digest    string          `json:"decisions_digest"`
	Steps     uint64          `json:"n_steps"`
	Minimised bool            `json:"minimised"`
	Note      string          `json:"note,omitempty"`
}

func watchdog() {
	// a wedged bubble (goroutine blocked on a mutex inside the code under
	// test) never lets the scheduler step return
	sig := make(chan os.Signal, 1)
	signal.Notify(sig, syscall.SIGUSR1)
	go func() {
		<-sig
		buf := make([]byte, 4<<20)
		n := runtime.Stack(buf, true)
		os.Stderr.Write(buf[:n])
		os.Exit(4)
	}()
}

var heartbeat = time.Now()

func main() {
	profile := flag.String("profile", "smoke", "profile name")
	from := flag.Uint64("from", 1, "first seed")
	stride := flag.Uint64("stride", 1, "seed stride")
	n := flag.Int("n", 1, "number of seeds")
	seconds := flag.Float64("seconds", 0, "stop after this much wall time (0 = no limit)")
	keep := flag.Bool("trace", false, "keep and print the event trace")
	replay := flag.String("replay", "", "replay file")
	runplan := flag.String("runplan", "", "plan file (ReplayFile format) to run once")
	minimise := flag.String("minimise", "", "replay file to minimise")
	outPath := flag.String("out", "", "output path (minimise)")
	budget := flag.Float64("budget", 60, "minimisation budget in seconds")
	maxViol := flag.Int("maxviol", 3, "stop after this many violating runs")
	printPlan := flag.Bool("plan", false, "print the generated plan of -from and exit")
	knownPath := flag.String("known", "", "known findings file")
	onlyProp := flag.String("prop", "", "report only violations of this property (others are counted)")
	free := flag.Bool("free", false, "free mode: scheduling points are no-ops (for the -race build)")
	flag.Parse()
	watchdog()

	if *minimise != "" {
		os.Exit(doMinimise(*minimise, *outPath, *budget))
	}
	if *replay != "" || *runplan != "" {
		path := *replay
		if path == "" {
			path = *runplan
		}
		os.Exit(doReplay(path, *replay != "", *keep))
	}
	pr := sim.Profiles[*profile]
	if pr == nil {
		fmt.Fprintln(os.Stderr, "unknown profile", *profile)
		os.Exit(2)
	}
	if *printPlan {
		p := pr.Generate(*from, rng.New(rng.Derive(*from, 77)))
		b, _ := json.MarshalIndent(p, "", " ")
		fmt.Println(string(b))
		return
	}
	enc := json.NewEncoder(os.Stdout)
	var curSeed atomic.Uint64
	go func() {
		// real-time watchdog for a teardown that never ends (a goroutine of the
		// code under test spins without blocking): report the run and leave
		for {
			time.Sleep(time.Second)
			since := sim.TeardownSince.Load()
			if since == 0 || sim.RealNow()-since < int64(40*time.Second) {
				continue
			}
			out, p := sim.TeardownOut.Load(), sim.TeardownPlan.Load()
			if os.Getenv("VERIF_WDSTACK") != "" {
				fmt.Fprintln(os.Stderr, sim.StackDump())
			}
			v := sim.Violation{Prop: pr.Prop, Oracle: "spins-after-teardown", Msg: "after the run every context was cancelled, the client and all connections were closed, and 40 s of real time later a goroutine is still running without ever blocking"}
			all := append([]sim.Violation{v}, out.Violations...)
			if *onlyProp == "" || *onlyProp == pr.Prop {
				rf := ReplayFile{Property: pr.Prop, Profile: *profile, Seed: curSeed.Load(), Plan: p, Violation: all[0], All: all, Digest: out.Digest, Steps: out.Steps}
				b, _ := json.Marshal(rf)
				fmt.Printf("VIOL %s\n", b)
			}
			fmt.Printf("SUMMARY {\"type\":\"summary\",\"profile\":%q,\"runs\":1,\"violations\":1,\"reasons\":{\"teardown-hang\":1}}\n", *profile)
			os.Exit(0)
		}
	}()
	sum := &summary{Type: "summary", Profile: *profile, Reasons: map[string]int{}, FaultKinds: map[string]int{}, Probes: map[string]int{}, Extra: map[string]int{}, Known: map[string]int{}, FirstSeed: *from}
	knowns := loadKnown(*knownPath)
	allh := sha256.New()
	start := time.Now()
	// warm-up run: lazy initialisation in dependencies happens here, not in a counted run
	{
		p := pr.Generate(1, rng.New(rng.Derive(1, 77)))
		sim.RunPlan(pr, p, false)
	}
	for i := 0; i < *n; i++ {
		if *seconds > 0 && time.Since(start).Seconds() > *seconds {
			break
		}
		seed := *from + uint64(i)**stride
		curSeed.Store(seed)
		fmt.Printf("RUN %d\n", seed)
		if simrt.RaceBuild {
			fmt.Fprintf(os.Stderr, "RUN %d\n", seed) // race reports go to stderr: attribute them to the seed
		}
		p := pr.Generate(seed, rng.New(rng.Derive(seed, 77)))
		p.Free = *free
		wantTrace := *keep || (len(sum.Samples) < 2 && !simrt.RaceBuild)
		out := sim.RunPlan(pr, p, wantTrace)
		sum.Runs++
		sum.LastSeed = seed
		sum.Steps += out.Steps
		sum.FakeNS += out.FakeNS
		sum.Reasons[out.Reason]++
		sum.Leaked += out.Leaked
		for k, v := range out.Stats.FaultKinds {
			sum.FaultKinds[k] += v
		}
		for k, v := range out.Stats.Probes {
			sum.Probes[k] += v
		}
		for k, v := range out.Extra {
			sum.Extra[k] += v
		}
		if out.Nontrivial {
			sum.Nontrivial++
			sum.Digests = append(sum.Digests, out.Digest)
		}
		if *keep {
			for _, l := range out.Trace {
				fmt.Println(l)
			}
		}
		if len(sum.Samples) < 2 && out.Nontrivial {
			head := out.Trace
			if len(head) > 25 {
				head = head[:25]
			}
			sm := map[string]any{"seed": seed, "steps": out.Steps, "digest": out.Digest, "reason": out.Reason,
				"tasks": p.Tasks, "faults": p.Faults, "conn_faults": p.ConnFaults, "layout_tables": len(p.Layout.Tables), "servers": p.Layout.Servers, "event_log_head": head}
			b, _ := json.Marshal(sm)
			sum.Samples = append(sum.Samples, b)
		}
		out.Trace = nil
		fmt.Fprintf(allh, "%d %s %d %d\n", seed, out.Digest, out.Steps, len(out.Violations))
		if out.Panic != "" {
			out.Violations = append(out.Violations, sim.Violation{Prop: pr.Prop, Oracle: "panic", Msg: out.Panic})
		}
		if *onlyProp != "" && len(out.Violations) > 0 {
			var mine []sim.Violation
			for _, v := range out.Violations {
				if v.Prop == *onlyProp {
					mine = append(mine, v)
				} else {
					sum.Extra["violations_of_other_property_"+v.Prop]++
				}
			}
			out.Violations = mine
		}
		if len(knowns) > 0 && len(out.Violations) > 0 {
			var rest []sim.Violation
			for _, v := range out.Violations {
				hit := false
				for _, k := range knowns {
					if k.prop == v.Prop && k.oracle == v.Oracle && strings.Contains(v.Msg, k.match) {
						sum.Known[k.prop+" "+k.oracle+" "+k.match]++
						hit = true
						break
					}
				}
				if !hit {
					rest = append(rest, v)
				}
			}
			out.Violations = rest
		}
		if len(out.Violations) > 0 {
			sum.Violations++
			rf := ReplayFile{Property: out.Violations[0].Prop, Profile: *profile, Seed: seed, Plan: p, Violation: out.Violations[0], All: out.Violations, Digest: out.Digest, Steps: out.Steps}
			b, _ := json.Marshal(rf)
			fmt.Printf("VIOL %s\n", b)
			if sum.Violations >= *maxViol {
				break
			}
		}
	}
	sum.WallS = time.Since(start).Seconds()
	sum.AllDigest = hex.EncodeToString(allh.Sum(nil))[:24]
	sort.Strings(sum.Digests)
	fmt.Print("SUMMARY ")
	enc.Encode(sum)
}

func loadReplay(path string) (*ReplayFile, *sim.Profile) {
	b, err := os.ReadFile(path)
	if err != nil {
		fmt.Fprintln(os.Stderr, err)
		os.Exit(2)
	}
	rf := &ReplayFile{}
	if err := json.Unmarshal(b, rf); err != nil {
		fmt.Fprintln(os.Stderr, "bad replay file:", err)
		os.Exit(2)
	}
	pr := sim.Profiles[rf.Profile]
	if pr == nil {
		fmt.Fprintln(os.Stderr, "unknown profile", rf.Profile)
		os.Exit(2)
	}
	return rf, pr
}

func sameViolation(want sim.Violation, got []sim.Violation) *sim.Violation {
	for i := range got {
		if got[i].Prop == want.Prop && got[i].Oracle == want.Oracle {
			return &got[i]
		}
	}
	return nil
}

func doReplay(path string, strict bool, keep bool) int {
	rf, pr := loadReplay(path)
	// warm-up, as in the worker
	{
		p := pr.Generate(1, rng.New(rng.Derive(1, 77)))
		sim.RunPlan(pr, p, false)
	}
	fmt.Printf("RUN %d\n", rf.Seed)
	out := sim.RunPlan(pr, rf.Plan, keep)
	if keep {
		for _, l := range out.Trace {
			fmt.Println(l)
		}
	}
	out.Trace = nil
	if out.Panic != "" {
		out.Violations = append(out.Violations, sim.Violation{Prop: pr.Prop, Oracle: "panic", Msg: out.Panic})
	}
	b, _ := json.Marshal(out)
	fmt.Printf("OUTCOME %s\n", b)
	if !strict {
		return 0
	}
	v := sameViolation(rf.Violation, out.Violations)
	if v == nil {
		fmt.Printf("NOT-REPRODUCED property=%s oracle=%s\n", rf.Violation.Prop, rf.Violation.Oracle)
		return 3
	}
	if rf.Digest != "" && rf.Digest != out.Digest {
		fmt.Printf("NOT-REPRODUCED digest differs: file %s run %s\n", rf.Digest, out.Digest)
		return 3
	}
	fmt.Printf("REPRODUCED property=%s oracle=%s step=%d msg=%s\n", v.Prop, v.Oracle, v.Step, v.Msg)
	return 1
}
