package main

import (
	"bytes"
	"encoding/json"
	"fmt"
	"os"
	"os/exec"
	"path/filepath"
	"strings"
	"time"

	"gosim/sim"
)

func clonePlan(p *sim.Plan) *sim.Plan {
	b, _ := json.Marshal(p)
	q := &sim.Plan{}
	if err := json.Unmarshal(b, q); err != nil {
		panic(err)
	}
	return q
}

func planSize(p *sim.Plan) int {
	n := len(p.Faults)*3 + len(p.ConnFaults)*3 + len(p.Rules)*3 + len(p.DialFaults)*3 + len(p.Layout.Tables)*2 + p.Layout.Servers
	for _, t := range p.Tasks {
		n += 2
		for _, o := range t.Ops {
			n += 2 + len(o.Batch)
		}
	}
	for _, t := range p.Layout.Tables {
		n += len(t.Splits) + len(t.Rows)
	}
	return n
}

// tryPlan runs a candidate in a child process and reports whether the same
// violation (property + oracle) shows up, with the outcome.
func tryPlan(rf *ReplayFile, p *sim.Plan, dir string, seeds int) (*sim.Outcome, *sim.Plan) {
	for s := 0; s < seeds; s++ {
		q := clonePlan(p)
		q.Seed = p.Seed + uint64(s)*1000003
		cand := ReplayFile{Property: rf.Property, Profile: rf.Profile, Seed: q.Seed, Plan: q, Violation: rf.Violation}
		b, _ := json.Marshal(cand)
		path := filepath.Join(dir, "cand.json")
		if err := os.WriteFile(path, b, 0o644); err != nil {
			return nil, nil
		}
		cmd := exec.Command(os.Args[0], "-runplan", path)
		var so, se bytes.Buffer
		cmd.Stdout, cmd.Stderr = &so, &se
		done := make(chan error, 1)
		if err := cmd.Start(); err != nil {
			return nil, nil
		}
		go func() { done <- cmd.Wait() }()
		var err error
		select {
		case err = <-done:
		case <-time.After(30 * time.Second):
			cmd.Process.Kill()
			<-done
			continue
		}
		var out *sim.Outcome
		for _, line := range strings.Split(so.String(), "\n") {
			if strings.HasPrefix(line, "OUTCOME ") {
				out = &sim.Outcome{}
				if json.Unmarshal([]byte(line[8:]), out) != nil {
					out = nil
				}
			}
		}
		if out == nil {
			if err != nil && rf.Violation.Oracle == "panic" {
				return &sim.Outcome{Panic: firstLines(se.String(), 3)}, q
			}
			continue
		}
		if sameViolation(rf.Violation, out.Violations) != nil {
			return out, q
		}
	}
	return nil, nil
}

func firstLines(s string, n int) string {
	ls := strings.Split(s, "\n")
	if len(ls) > n {
		ls = ls[:n]
	}
	return strings.Join(ls, " | ")
}

func dropTask(p *sim.Plan, t int) *sim.Plan {
	q := clonePlan(p)
	q.Tasks = append(q.Tasks[:t], q.Tasks[t+1:]...)
	var fs []*sim.Fault
	for _, f := range q.Faults {
		if f.Act == "cancel" {
			if f.Task == t {
				continue
			}
			if f.Task > t {
				f.Task--
			}
		}
		fs = append(fs, f)
	}
	q.Faults = fs
	return q
}

func dropOp(p *sim.Plan, t, i int) *sim.Plan {
	q := clonePlan(p)
	ops := q.Tasks[t].Ops
	q.Tasks[t].Ops = append(ops[:i], ops[i+1:]...)
	var fs []*sim.Fault
	for _, f := range q.Faults {
		if f.Act == "cancel" && f.Task == t {
			if f.Op == i {
				continue
			}
			if f.Op > i {
				f.Op--
			}
		}
		fs = append(fs, f)
	}
	q.Faults = fs
	return q
}

func doMinimise(in, out string, budget float64) int {
	rf, _ := loadReplay(in)
	dir, err := os.MkdirTemp("", "verif-min-")
	if err != nil {
		fmt.Fprintln(os.Stderr, err)
		return 2
	}
	defer os.RemoveAll(dir)
	deadline := time.Now().Add(time.Duration(budget * float64(time.Second)))
	best := rf.Plan
	bestOut, _ := tryPlan(rf, best, dir, 1)
	if bestOut == nil {
		fmt.Println("MINIMISE original does not reproduce")
		return 3
	}
	tried := 0
	improved := true
	for improved && time.Now().Before(deadline) {
		improved = false
		accept := func(c *sim.Plan) bool {
			if time.Now().After(deadline) {
				return false
			}
			tried++
			if o, q := tryPlan(rf, c, dir, 3); o != nil {
				best, bestOut = q, o
				improved = true
				return true
			}
			return false
		}
		// 1. whole tasks
		for t := len(best.Tasks) - 1; t >= 0 && len(best.Tasks) > 1; t-- {
			if t < len(best.Tasks) {
				accept(dropTask(best, t))
			}
		}
		// 2. faults of every kind
		for i := len(best.Faults) - 1; i >= 0; i-- {
			if i < len(best.Faults) {
				c := clonePlan(best)
				c.Faults = append(c.Faults[:i], c.Faults[i+1:]...)
				accept(c)
			}
		}
		for i := len(best.ConnFaults) - 1; i >= 0; i-- {
			if i < len(best.ConnFaults) {
				c := clonePlan(best)
				c.ConnFaults = append(c.ConnFaults[:i], c.ConnFaults[i+1:]...)
				accept(c)
			}
		}
		for i := len(best.Rules) - 1; i >= 0; i-- {
			if i < len(best.Rules) {
				c := clonePlan(best)
				c.Rules = append(c.Rules[:i], c.Rules[i+1:]...)
				accept(c)
			}
		}
		for k := range best.DialFaults {
			c := clonePlan(best)
			delete(c.DialFaults, k)
			accept(c)
		}
		// 3. operations
		for t := len(best.Tasks) - 1; t >= 0; t-- {
			for i := len(best.Tasks[t].Ops) - 1; i >= 0; i-- {
				if t < len(best.Tasks) && i < len(best.Tasks[t].Ops) && (len(best.Tasks[t].Ops) > 1 || len(best.Tasks) > 1) {
					if len(best.Tasks[t].Ops) == 1 {
						accept(dropTask(best, t))
					} else {
						accept(dropOp(best, t, i))
					}
				}
			}
		}
		// 4. batch entries
		for t := range best.Tasks {
			for i := range best.Tasks[t].Ops {
				for j := len(best.Tasks[t].Ops[i].Batch) - 1; j >= 0 && len(best.Tasks[t].Ops[i].Batch) > 1; j-- {
					if len(best.Tasks[t].Ops[i].Dup) > 0 {
						break
					}
					c := clonePlan(best)
					b := c.Tasks[t].Ops[i].Batch
					c.Tasks[t].Ops[i].Batch = append(b[:j], b[j+1:]...)
					var fs []*sim.Fault
					for _, f := range c.Faults {
						if f.Act == "cancel" && f.Task == t && f.Op == i && f.Slot > 0 {
							if f.Slot-1 == j {
								continue
							}
							if f.Slot-1 > j {
								f.Slot--
							}
						}
						fs = append(fs, f)
					}
					c.Faults = fs
					accept(c)
				}
			}
		}
		// 5. preloaded rows and tables that no operation uses
		for ti := len(best.Layout.Tables) - 1; ti >= 0 && len(best.Layout.Tables) > 1; ti-- {
			c := clonePlan(best)
			name := c.Layout.Tables[ti].Name
			used := false
			for _, t := range c.Tasks {
				for _, o := range t.Ops {
					if o.Table == name {
						used = true
					}
				}
			}
			if !used {
				c.Layout.Tables = append(c.Layout.Tables[:ti], c.Layout.Tables[ti+1:]...)
				accept(c)
			}
		}
		for ti := range best.Layout.Tables {
			if n := len(best.Layout.Tables[ti].Rows); n > 0 {
				c := clonePlan(best)
				c.Layout.Tables[ti].Rows = c.Layout.Tables[ti].Rows[:n/2]
				accept(c)
			}
		}
		// 6. calmer schedule
		if best.Sched.Starve > 0 {
			c := clonePlan(best)
			c.Sched.Starve = 0
			accept(c)
		}
		if best.Sched.Chop > 0 {
			c := clonePlan(best)
			c.Sched.Chop = 0
			accept(c)
		}
		if best.Sched.Sticky < 0.9 && best.Sched.MaxSteps != 0 {
			c := clonePlan(best)
			c.Sched.Sticky = 0.9
			accept(c)
		}
	}
	v := sameViolation(rf.Violation, bestOut.Violations)
	res := *rf
	res.Plan = best
	res.Seed = best.Seed
	res.Minimised = true
	res.Digest = bestOut.Digest
	res.Steps = bestOut.Steps
	res.All = bestOut.Violations
	if v != nil {
		res.Violation = *v
	}
	res.Note = fmt.Sprintf("minimised from plan size %d to %d in %d candidate runs", planSize(rf.Plan), planSize(best), tried)
	b, _ := json.MarshalIndent(res, "", " ")
	if err := os.WriteFile(out, b, 0o644); err != nil {
		fmt.Fprintln(os.Stderr, err)
		return 2
	}
	fmt.Printf("MINIMISED %s size %d -> %d candidates=%d\n", out, planSize(rf.Plan), planSize(best), tried)
	return 0
}
