package sim

import (
	"fmt"
	"io"
	"strings"

	"gosim/hb"
	"gosim/rng"
)

// Fault is a scripted event: when the named counter reaches N, Act happens.
type Fault struct {
	On  string `json:"on"` // step | exec | frames | deliver | dials | ms
	N   int    `json:"n"`
	Act string `json:"act"`
	// arguments (by action)
	Table  string   `json:"table,omitempty"`
	Region int      `json:"region,omitempty"` // index into the table's live regions by start key
	Server int      `json:"server,omitempty"`
	To     int      `json:"to,omitempty"`
	Key    []byte   `json:"key,omitempty"`
	Count  int      `json:"count,omitempty"`
	Dur    int      `json:"dur_ms,omitempty"`
	Rule   *hb.Rule `json:"rule,omitempty"`
	Task   int      `json:"task,omitempty"`
	Op     int      `json:"op,omitempty"`
	Slot   int      `json:"slot,omitempty"`
	Conn   int      `json:"conn,omitempty"`
	Fired  bool     `json:"-"`
}

func (e *Env) counter(name string) int {
	switch name {
	case "step":
		return int(e.Step)
	case "exec":
		return e.NExec
	case "frames":
		return e.NFrames
	case "deliver":
		return e.NDeliver
	case "dials":
		return e.NDials
	case "ms":
		return int(e.Now().Milliseconds())
	}
	panic("unknown fault counter " + name)
}

// fireFaults applies every due fault; reports whether any fired.
func (e *Env) fireFaults() bool {
	any := false
	for _, f := range e.Faults {
		if f.Fired || e.counter(f.On) < f.N {
			continue
		}
		f.Fired = true
		any = true
		e.apply(f)
	}
	return any
}

func (e *Env) liveRegion(table string, i int) *hb.Region {
	rs := e.C.LiveRegions(table)
	if len(rs) == 0 {
		return nil
	}
	if i < 0 {
		i = 0
	}
	return rs[i%len(rs)]
}

func (e *Env) upServers(except int) []int {
	var out []int
	for _, s := range e.C.Servers {
		if s.Up && s.Idx != except {
			out = append(out, s.Idx)
		}
	}
	return out
}

func (e *Env) apply(f *Fault) {
	c := e.C
	e.Stats.FaultsFired++
	e.Stats.FaultKinds[f.Act]++
	desc := f.Act
	if e.ExtraAct != nil && e.ExtraAct(f) {
		for _, cn := range e.Conns {
			if e.CutAfterAll > 0 && cn.CutAfter == 0 {
				cn.CutAfter = e.CutAfterAll
			}
		}
		e.Ev("fault %s", desc)
		return
	}
	if e.FreeMode && (f.Act == "stall" || f.Act == "dialdelay") {
		// free (-race) mode uses the real sync types: a goroutine that blocks
		// (durably) in Write or Dial while holding one of them and a second one
		// waiting for that mutex (not durably) would keep the bubble from ever
		// becoming idle. These two faults exist in controlled mode only.
		e.Ev("fault %s (skipped in free mode)", f.Act)
		return
	}
	switch f.Act {
	case "move":
		if r := e.liveRegion(f.Table, f.Region); r != nil {
			to := f.To % len(c.Servers)
			if !c.Servers[to].Up {
				if up := e.upServers(-1); len(up) > 0 {
					to = up[0]
				}
			}
			desc = fmt.Sprintf("move %s -> rs%d", r.Name, to)
			c.Move(r, to)
		}
	case "opening":
		if r := e.liveRegion(f.Table, f.Region); r != nil {
			desc = "opening " + r.Name
			c.SetOpening(r, true)
		}
	case "open":
		if r := e.liveRegion(f.Table, f.Region); r != nil {
			desc = "open " + r.Name
			c.SetOpening(r, false)
		}
	case "openall":
		for _, r := range c.Regions {
			if r.State == hb.Opening {
				c.SetOpening(r, false)
			}
		}
	case "split":
		if r := e.liveRegion(f.Table, f.Region); r != nil {
			a, b := c.Split(r, f.Key, f.Server%len(c.Servers), f.To%len(c.Servers))
			if a != nil {
				desc = fmt.Sprintf("split %s at %q -> %s , %s", r.Name, f.Key, a.Name, b.Name)
			} else {
				desc = "split (not applicable)"
			}
		}
	case "merge":
		rs := c.LiveRegions(f.Table)
		if len(rs) >= 2 {
			i := f.Region % (len(rs) - 1)
			if m := c.Merge(rs[i], rs[i+1], f.To%len(c.Servers)); m != nil {
				desc = "merge -> " + m.Name
			}
		}
	case "metahole":
		// hbase:meta loses the row of one region that is not the first of its
		// table (as between the steps of a split or merge): a lookup of a key of
		// that region finds the row of its predecessor
		if rs := c.LiveRegions(f.Table); len(rs) >= 2 {
			r := rs[1+f.Region%(len(rs)-1)]
			r.MetaHidden = true
			desc = "metahole " + r.Name
		} else {
			desc = "metahole (not applicable)"
		}
	case "metaunhide":
		for _, r := range c.Regions {
			r.MetaHidden = false
		}
		desc = "metaunhide"
	case "procfail":
		desc = "every third procedure fails with " + f.Rule.Class
		c.ProcFail = f.Rule.Class
	case "drop":
		desc = "drop table " + f.Table
		c.DropTable(f.Table)
	case "crash":
		s := f.Server % len(c.Servers)
		if c.Servers[s].Up {
			up := e.upServers(s)
			if len(up) == 0 {
				desc = "crash (skipped: last server)"
				break
			}
			desc = fmt.Sprintf("crash rs%d", s)
			c.Crash(s, up)
			for _, cn := range e.Conns {
				if cn.Srv.Idx == s {
					cn.Reset("server crashed", io.EOF)
				}
			}
		}
	case "restart":
		s := f.Server % len(c.Servers)
		desc = fmt.Sprintf("restart rs%d", s)
		c.Restart(s)
	case "abort":
		// server answers everything with a fatal class, then drops connections
		s := f.Server % len(c.Servers)
		cls := hb.ExAborted
		if f.Rule != nil && f.Rule.Class != "" {
			cls = f.Rule.Class
		}
		c.Servers[s].Aborted = cls
		desc = fmt.Sprintf("abort rs%d with %s", s, cls)
		for _, cn := range e.Conns {
			if cn.Srv.Idx == s {
				cn.Death = append(cn.Death, "server answers with fatal class "+cls)
			}
		}
	case "unabort":
		s := f.Server % len(c.Servers)
		c.Servers[s].Aborted = ""
	case "silent":
		s := f.Server % len(c.Servers)
		c.Servers[s].Silent = true
		desc = fmt.Sprintf("silent rs%d", s)
	case "flaky":
		s := f.Server % len(c.Servers)
		c.Servers[s].Flaky = true
		desc = fmt.Sprintf("flaky rs%d", s)
	case "down":
		// the server goes away and nothing replaces it (meta / zk keep pointing to it)
		s := f.Server % len(c.Servers)
		c.Servers[s].Up = false
		for _, cn := range e.Conns {
			if cn.Srv.Idx == s {
				cn.Reset("server went down", io.EOF)
			}
		}
		desc = fmt.Sprintf("down rs%d", s)
	case "stall":
		// the server stops reading (and executing): writes block once Count bytes are buffered
		s := f.Server % len(c.Servers)
		e.Stall[s] = f.Count
		desc = fmt.Sprintf("stall rs%d window=%d", s, f.Count)
	case "slow":
		// the server takes its time: a request is executed this long after it arrived
		if !e.FreeMode {
			s := f.Server % len(c.Servers)
			e.Slow[s] = ms(f.Dur)
			desc = fmt.Sprintf("slow rs%d %v", s, e.Slow[s])
		}
	case "unslow":
		delete(e.Slow, f.Server%len(c.Servers))
	case "unstall":
		s := f.Server % len(c.Servers)
		e.unstall(s)
	case "metabad":
		// every hbase:meta row of a user region is answered damaged in the
		// given way (f.Rule.Msg) until the cluster heals
		kind := f.Rule.Msg
		rr := rng.New(rng.Derive(e.Seed, 4242))
		c.MetaCorruptFn = func(reg *hb.Region, cells []hb.Cell) []hb.Cell {
			out, _ := hb.CorruptMetaKind(rr, cells, kind)
			e.Stats.FaultKinds["meta/"+kind]++
			return out
		}
		desc = "metabad " + kind
		if strings.HasPrefix(kind, "region-older") || strings.HasPrefix(kind, "rowkey-") {
			// the client is told about regions that never existed: requests naming
			// them are the fault's doing, the server-side observers stay silent
			c.Corrupting = true
		}
	case "dialdelay":
		e.DialDelay = ms(f.Dur)
		desc = fmt.Sprintf("dialdelay %v", e.DialDelay)
	case "unsilent":
		s := f.Server % len(c.Servers)
		c.Servers[s].Silent = false
	case "reset":
		// reset the f.Conn-th connection (1-based; 0 = every connection of server)
		for _, cn := range e.Conns {
			if (f.Conn != 0 && cn.N == f.Conn) || (f.Conn == 0 && cn.Srv.Idx == f.Server%len(c.Servers)) {
				if cn.alive() {
					cn.Reset("connection reset by peer", io.EOF)
				}
			}
		}
	case "metamove":
		to := f.To % len(c.Servers)
		if c.Servers[to].Up {
			c.Meta = to
			c.MetaZK = to
			desc = fmt.Sprintf("meta -> rs%d", to)
		}
	case "mastermove":
		to := f.To % len(c.Servers)
		if c.Servers[to].Up {
			c.Master = to
			desc = fmt.Sprintf("master -> rs%d", to)
		}
	case "rule":
		r := *f.Rule
		c.Rules = append(c.Rules, &r)
		desc = fmt.Sprintf("rule %s x%d level=%s", r.Class, r.Count, r.Level)
	case "clearrules":
		c.Rules = nil
	case "zkfail":
		e.ZK.Fail = f.Count
	case "zkdelay":
		e.ZK.Delay = ms(f.Dur)
	case "cancel":
		if e.CancelOp != nil {
			e.CancelOp(f.Task, f.Op, f.Slot)
		}
		desc = fmt.Sprintf("cancel task%d op%d slot%d", f.Task, f.Op, f.Slot)
	case "close":
		if e.CloseClient != nil {
			e.CloseClient()
		}
	case "heal":
		e.Heal()
	default:
		panic("unknown fault action " + f.Act)
	}
	e.Ev("fault %s", desc)
}

// Heal ends every transient fault: the stabilisation point.
func (e *Env) Heal() {
	c := e.C
	c.Rules = nil
	for _, s := range c.Servers {
		s.Silent = false
		s.Flaky = false
		s.Aborted = ""
		if !s.Up {
			c.Restart(s.Idx)
		}
	}
	for _, r := range c.Regions {
		r.MetaHidden = false
		if r.State == hb.Opening {
			c.SetOpening(r, false)
		}
	}
	for _, s := range c.Servers {
		e.unstall(s.Idx)
	}
	e.DialDelay = 0
	for k := range e.Slow {
		delete(e.Slow, k)
	}
	e.ZK.Fail = 0
	e.ZK.Delay = 0
	c.MetaZK = c.Meta
	for _, f := range e.Faults {
		f.Fired = true
	}
	for _, f := range e.ConnFaults {
		f.Fired = true
	}
	e.DialFaults = map[int]string{}
	e.Mangle = nil
	c.MetaCorruptFn = nil
	e.Stabilized = true
	e.StableAt = e.Now()
	e.StableStep = e.Step
}

func (e *Env) unstall(s int) {
	if _, ok := e.Stall[s]; !ok {
		return
	}
	delete(e.Stall, s)
	for _, cn := range e.Conns {
		if cn.Srv.Idx == s {
			cn.flushHeld()
		}
	}
}
