package sim

import (
	"bytes"

	"gosim/rng"
)

// C01 — requests are routed to the region that owns the row key.
func genC01(seed uint64, r *rng.Rand) *Plan {
	g := &Gen{R: r}
	p := &Plan{Profile: "c01", Seed: seed}
	p.Layout = g.Layout(LayoutOpts{MaxServers: 3, MaxTables: 3, MaxRegions: 6, KeyLen: 4})
	p.Client = g.SwarmClient()
	p.Client.ReadTimeoutMS = 30000
	p.Sched = g.SwarmSched()
	nt := g.R.Range(1, 4)
	kinds := []string{"get", "put", "del", "app", "inc", "cas"}
	for t := 0; t < nt; t++ {
		var ops []Op
		n := g.R.Range(2, 8)
		for i := 0; i < n; i++ {
			ts := &p.Layout.Tables[g.R.Intn(len(p.Layout.Tables))]
			if g.R.Chance(0.2) {
				ops = append(ops, g.batchOf(ts, 8, []string{"get", "put", "del", "app", "inc"}))
				continue
			}
			key := g.KeyNear(ts.Splits, 5)
			if g.R.Chance(0.01) {
				// longer than the search-key truncation limit
				key = append(bytes.Repeat([]byte{'m'}, 33000), key...)
			}
			o := g.SingleOp(ts.Name, key, kinds)
			if g.R.Chance(0.04) {
				// a call that cannot be marshalled (nil row): the multi it is
				// batched into fails before anything is written; whatever the
				// region clients do next must still be routed correctly
				o = Op{Kind: "get", Table: ts.Name, Key: nil, Nonce: g.Nonce()}
			}
			ops = append(ops, o)
		}
		p.Tasks = append(p.Tasks, Task{Ops: ops})
	}
	// a minority of runs with stale / replaced cache entries
	if g.R.Chance(0.3) {
		nf := g.R.Range(1, 2)
		for i := 0; i < nf; i++ {
			ts := &p.Layout.Tables[g.R.Intn(len(p.Layout.Tables))]
			switch g.R.Intn(4) {
			case 3:
				// a hole in hbase:meta for a while: keys of the hidden region (its
				// start key included) find the row of the region before it
				p.Faults = append(p.Faults, &Fault{On: "exec", N: g.R.Range(0, 10), Act: "metahole", Table: ts.Name, Region: g.R.Intn(6)})
				p.Faults = append(p.Faults, &Fault{On: "ms", N: g.R.Range(200, 20000), Act: "metaunhide"})
			case 0:
				p.Faults = append(p.Faults, &Fault{On: "exec", N: g.R.Range(2, 30), Act: "split", Table: ts.Name, Region: g.R.Intn(6),
					Key: g.KeyNear(ts.Splits, 4), Server: g.R.Intn(3), To: g.R.Intn(3)})
			case 1:
				p.Faults = append(p.Faults, &Fault{On: "exec", N: g.R.Range(2, 30), Act: "merge", Table: ts.Name, Region: g.R.Intn(6), To: g.R.Intn(3)})
			case 2:
				p.Faults = append(p.Faults, &Fault{On: "exec", N: g.R.Range(2, 30), Act: "move", Table: ts.Name, Region: g.R.Intn(6), To: g.R.Intn(3)})
			}
		}
	}
	return p
}

// probeKeys returns boundaries and their neighbours per table.
func probeKeys(p *Plan, w *World) map[string][][]byte {
	out := map[string][][]byte{}
	for _, t := range p.Layout.Tables {
		ks := [][]byte{nil, {0}, {0xff}, []byte(","), []byte("-"), []byte("+")}
		var bounds [][]byte
		bounds = append(bounds, t.Splits...)
		for _, r := range w.Env.C.Regions {
			if r.Table == t.Name {
				bounds = append(bounds, r.Start, r.Stop)
			}
		}
		for _, b := range bounds {
			ks = append(ks, b, append(append([]byte(nil), b...), 0))
			if len(b) > 0 {
				ks = append(ks, b[:len(b)-1])
				pr := append([]byte(nil), b...)
				pr[len(pr)-1]--
				ks = append(ks, append(pr, 0xff))
				nx := append([]byte(nil), b...)
				nx[len(nx)-1]++
				ks = append(ks, nx)
			}
		}
		out[t.Name] = ks
	}
	return out
}

func init() {
	register(&Profile{Name: "c01", Prop: "C01", Generate: genC01,
		Setup: func(w *World) {
			var keys map[string][][]byte
			w.Env.Invariant = func() error {
				if w.Env.Step%64 != 0 {
					return nil
				}
				if err := w.CacheInvariant(); err != nil {
					return err
				}
				if keys == nil || w.Env.Step%512 == 0 {
					keys = probeKeys(w.Plan, w)
				}
				if vs := w.CacheLookupCheck(keys); len(vs) > 0 {
					w.pending = append(w.pending, vs...)
					return errStop
				}
				return nil
			}
		},
		Check: func(w *World, reason string) []Violation {
			vs := w.pending
			vs = append(vs, w.CacheLookupCheck(probeKeys(w.Plan, w))...)
			if len(w.Plan.Faults) == 0 && w.Env.StopErr == nil {
				vs = append(vs, w.AllReturned("C01", "completion")...)
			}
			// (c) routed from the cache: sequential fault-free runs look up each region once
			if len(w.Plan.Faults) == 0 && len(w.Plan.Tasks) == 1 && reason == "done" {
				metas := 0
				for _, e := range w.Env.C.Execs {
					if e.Kind == "Meta" {
						metas++
					}
				}
				touched := map[string]bool{}
				for _, r := range w.Recs[0] {
					ops := []Op{*r.Op}
					if r.Op.Kind == "batch" {
						ops = r.Op.Batch
					}
					for _, o := range ops {
						if reg := w.Env.C.Locate(o.Table, o.Key); reg != nil {
							touched[reg.Name] = true
						}
					}
				}
				if metas != len(touched) {
					vs = append(vs, w.viol("C01", "lookups-vs-regions", "sequential fault-free run touched %d distinct regions but performed %d meta lookups", len(touched), metas))
				}
			}
			return vs
		},
		Nontrivial: func(w *World) bool { return len(w.Env.C.Regions) >= 2 },
	})
}
