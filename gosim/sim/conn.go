package sim

import (
	"context"
	"errors"
	"fmt"
	"io"
	"net"
	"os"
	"sync"
	"time"

	"gosim/hb"
	"gosim/seam"

	simrt "github.com/tsuna/gohbase/verifsimrt"
	"github.com/tsuna/gohbase/zk"
)

// ConnFault fails the Op-th operation (1-based, counting Read, Write,
// SetReadDeadline, SetWriteDeadline, SetDeadline, Close in execution order)
// on the Conn-th dialled connection (1-based; 0 = any connection).
type ConnFault struct {
	Conn  int     `json:"conn"`
	Op    int     `json:"op"`
	Frac  float64 `json:"frac"` // Write: fraction of the buffer written before the error
	Fired bool    `json:"-"`
}

// DialRec is one dial observed by the simulated network.
type DialRec struct {
	N      int
	Addr   string
	Step   uint64
	At     time.Duration
	Err    string
	Conn   *Conn
	Client string
	DoneAt time.Duration // when the dial returned (slow dials)
}

// Conn is the in-memory net.Conn handed to the region client. It models the
// weakest legal net.Conn: each Write call is atomic and all-or-error,
// consecutive Writes are not; Read may return any non-empty prefix; deadlines
// are honoured on the fake clock; Write blocks only while the server is stalled
// (fault "stall": the peer stops reading) and the window is full.
type Conn struct {
	env  *Env
	N    int // dial ordinal, 1-based
	Addr string
	SC   *hb.ServerConn
	Srv  *hb.Server

	mu         sync.Mutex
	rbuf       []byte
	rerr       error // delivered after rbuf is drained
	closed     bool  // closed by the client
	rdl        time.Time
	wdl        time.Time
	rwake      chan struct{}
	wwake      chan struct{}
	held       []byte // bytes accepted into the "socket buffers" while the server is stalled; the server has not seen them
	ops        int
	outq       []byte // response bytes produced by the server, not yet delivered
	frames     []int  // lengths of the frames in outq (for frame-aligned delivery)
	broken     bool   // write side broken (server gone)
	ClosedAt   time.Duration
	ClosedStep uint64
	OpenedAt   time.Duration
	// death-justifying events recorded by the simulator (C20)
	Death []string
	// bookkeeping for C18
	LastWriteAt   time.Duration
	Written       int
	Delivered     int
	ReadBytes     int
	CutAfter      int // reset the connection after this many delivered bytes (0 = never)
	ReadTimeouts  int
	Writes, Reads int
	ReqWritten    int
	RespConsumed  int
	Produced      int         // response bytes produced by the server on this connection
	RespCount     int         // response frames produced
	ReadMark      int         // bytes the reader had consumed when it last asked for more
	Marks         [][2]uint64 // (ReadMark, scheduler step) history
}

type timeoutErr struct{}

func (timeoutErr) Error() string   { return "i/o timeout (simulated deadline)" }
func (timeoutErr) Timeout() bool   { return true }
func (timeoutErr) Temporary() bool { return true }

var errTimeout error = &net.OpError{Op: "read", Net: "sim", Err: os.ErrDeadlineExceeded}

type simAddr string

func (a simAddr) Network() string { return "sim" }
func (a simAddr) String() string  { return string(a) }

// Dial is the RegionDialer handed to the client.
func (e *Env) dial(ctx context.Context, network, addr string) (net.Conn, error) {
	simrt.Yield("simnet:Dial")
	if e.frozen.Load() {
		return nil, net.ErrClosed
	}
	e.lock()
	e.NDials++
	rec := &DialRec{N: e.NDials, Addr: addr, Step: e.Step, At: e.Now()}
	e.Dials = append(e.Dials, rec)
	delay := e.DialDelay
	if delay > 0 {
		e.Ev("dial#%d %s started, takes %v", rec.N, addr, delay)
		e.Probe("dial-slow")
	}
	e.unlock()
	if delay > 0 {
		t := time.NewTimer(delay)
		select {
		case <-ctx.Done(): // the code under test cancels its own dial: a real edge
			t.Stop()
		case <-e.frozenCh:
			t.Stop()
		case <-t.C:
		}
		simrt.Woke("simnet:Dial")
		if e.frozen.Load() {
			return nil, net.ErrClosed
		}
	}
	e.lock()
	defer e.unlock()
	rec.DoneAt = e.Now()
	fail := func(msg string) (net.Conn, error) {
		rec.Err = msg
		e.Ev("dial#%d %s -> %s", rec.N, addr, msg)
		e.Stats.FaultKinds["dial-error"]++
		return nil, &net.OpError{Op: "dial", Net: network, Err: errors.New(msg)}
	}
	if err := ctx.Err(); err != nil {
		if delay > 0 {
			e.Probe("dial-slow-cancelled")
		}
		return fail(err.Error())
	}
	if msg, ok := e.DialFaults[rec.N]; ok {
		return fail(msg)
	}
	srv := e.C.ServerByAddr(addr)
	if srv == nil || !srv.Up {
		return fail("connection refused")
	}
	c := &Conn{env: e, N: rec.N, Addr: addr, Srv: srv, rwake: make(chan struct{}), wwake: make(chan struct{}), OpenedAt: e.Now()}
	c.CutAfter = e.CutAfterAll
	c.SC = e.C.NewConn(srv, rec.N)
	rec.Conn = c
	e.Conns = append(e.Conns, c)
	e.Ev("dial#%d %s ok", rec.N, addr)
	return c, nil
}

func (c *Conn) lock() {
	simrt.RaceOff()
	c.mu.Lock()
	simrt.RaceOn()
}

func (c *Conn) unlock() {
	simrt.RaceOff()
	c.mu.Unlock()
	simrt.RaceOn()
}

func (c *Conn) fault(kind string) *ConnFault {
	c.ops++
	for _, f := range c.env.ConnFaults {
		if !f.Fired && (f.Conn == 0 || f.Conn == c.N) && f.Op == c.ops {
			f.Fired = true
			c.env.Stats.FaultKinds["connop-"+kind]++
			c.env.Stats.FaultsFired++
			c.Death = append(c.Death, fmt.Sprintf("injected %s error at op %d", kind, c.ops))
			c.env.Ev("connfault c%d op%d %s", c.N, c.ops, kind)
			return f
		}
	}
	return nil
}

func (c *Conn) signal() {
	simrt.RaceOff()
	close(c.rwake)
	c.rwake = make(chan struct{})
	close(c.wwake)
	c.wwake = make(chan struct{})
	simrt.RaceOn()
}

func (c *Conn) read(p []byte) (int, error) {
	simrt.Yield("simnet:Read")
	if c.env.frozen.Load() {
		return 0, net.ErrClosed
	}
	c.env.lock()
	c.lock()
	c.Reads++
	if c.ReadBytes > c.ReadMark {
		// the reader asks for more: everything it had read has been processed
		c.ReadMark = c.ReadBytes
		c.Marks = append(c.Marks, [2]uint64{uint64(c.ReadBytes), c.env.Step})
	}
	if f := c.fault("read"); f != nil {
		c.unlock()
		c.env.unlock()
		return 0, &net.OpError{Op: "read", Net: "sim", Err: errors.New("injected read error")}
	}
	c.unlock()
	c.env.unlock()
	for {
		c.env.lock()
		c.lock()
		if c.closed || c.env.frozen.Load() {
			c.unlock()
			c.env.unlock()
			return 0, &net.OpError{Op: "read", Net: "sim", Err: net.ErrClosed}
		}
		if len(c.rbuf) > 0 {
			n := copy(p, c.rbuf)
			c.rbuf = c.rbuf[n:]
			c.ReadBytes += n
			c.unlock()
			c.env.unlock()
			return n, nil
		}
		if c.rerr != nil {
			err := c.rerr
			c.unlock()
			c.env.unlock()
			return 0, err
		}
		dl := c.rdl
		if !dl.IsZero() && !time.Now().Before(dl) {
			c.ReadTimeouts++
			c.Death = append(c.Death, "read deadline expired")
			c.unlock()
			c.env.Ev("c%d read timeout", c.N)
			c.env.unlock()
			return 0, errTimeout
		}
		ch := c.rwake
		c.unlock()
		c.env.unlock()
		simrt.RaceOff()
		if dl.IsZero() {
			<-ch
		} else {
			t := time.NewTimer(time.Until(dl))
			select {
			case <-ch:
				t.Stop()
			case <-t.C:
			}
		}
		simrt.RaceOn()
		simrt.Woke("simnet:Read")
	}
}

func (c *Conn) write(p []byte) (int, error) {
	simrt.Yield("simnet:Write")
	if c.env.frozen.Load() {
		return 0, net.ErrClosed
	}
	written := 0
	for first := true; ; first = false {
		c.env.lock()
		c.lock()
		n, err, wait, dl := c.writeLocked(p, first)
		written += n
		p = p[n:]
		c.unlock()
		c.env.unlock()
		if wait == nil {
			return written, err
		}
		// the peer does not read and the window is full: block like a socket
		simrt.RaceOff()
		if dl.IsZero() {
			<-wait
		} else {
			t := time.NewTimer(time.Until(dl))
			select {
			case <-wait:
				t.Stop()
			case <-t.C:
			}
		}
		simrt.RaceOn()
		simrt.Woke("simnet:Write")
		if c.env.frozen.Load() {
			return written, net.ErrClosed
		}
	}
}

// writeLocked accepts as much of p as possible. A non-nil wait channel means
// the caller has to block until it is closed (or the write deadline passes)
// and call again with the rest.
func (c *Conn) writeLocked(p []byte, first bool) (n int, err error, wait chan struct{}, dl time.Time) {
	if first {
		c.Writes++
	}
	if c.closed {
		return 0, &net.OpError{Op: "write", Net: "sim", Err: net.ErrClosed}, nil, dl
	}
	if first && !c.broken { // nothing more reaches the server once the connection is broken
		if f := c.fault("write"); f != nil {
			n := int(f.Frac * float64(len(p)))
			if n >= len(p) {
				n = len(p) - 1
			}
			if n < 0 {
				n = 0
			}
			if n > 0 {
				if _, stalled := c.env.Stall[c.Srv.Idx]; stalled {
					c.held = append(c.held, p[:n]...) // lost with the connection
				} else {
					c.feed(p[:n])
				}
			}
			c.broken = true
			return n, &net.OpError{Op: "write", Net: "sim", Err: errors.New("injected write error (broken pipe)")}, nil, dl
		}
	}
	if c.broken {
		c.Death = append(c.Death, "write on broken connection")
		return 0, &net.OpError{Op: "write", Net: "sim", Err: errors.New("broken pipe")}, nil, dl
	}
	if !c.wdl.IsZero() && !time.Now().Before(c.wdl) {
		return 0, errTimeout, nil, dl
	}
	win, stalled := c.env.Stall[c.Srv.Idx]
	if !stalled {
		c.feed(p)
		return len(p), nil, nil, dl
	}
	if space := win - len(c.held); space > 0 {
		n = len(p)
		if n > space {
			n = space
		}
		c.held = append(c.held, p[:n]...)
		c.LastWriteAt = c.env.Now()
		c.env.Ev("c%d W %d held", c.N, n)
	}
	if n == len(p) {
		return n, nil, nil, dl
	}
	c.env.Probe("write-blocked")
	c.env.Ev("c%d W blocks with %d bytes left", c.N, len(p)-n)
	return n, nil, c.wwake, c.wdl
}

// flushHeld hands the bytes held back during a stall to the server.
func (c *Conn) flushHeld() {
	c.lock()
	defer c.unlock()
	if len(c.held) > 0 && !c.closed && !c.broken {
		c.feed(c.held)
	}
	c.held = nil
	c.signal()
}

func (c *Conn) feed(p []byte) {
	c.Written += len(p)
	c.LastWriteAt = c.env.Now()
	before := c.SC.FramesIn
	c.SC.Feed(p)
	c.env.NFrames += c.SC.FramesIn - before
	c.ReqWritten += c.SC.FramesIn - before
	c.env.Ev("c%d W %d", c.N, len(p))
}

func (c *Conn) closeConn() error {
	simrt.Yield("simnet:Close")
	if c.env.frozen.Load() {
		return nil
	}
	c.env.lock()
	defer c.env.unlock()
	c.lock()
	defer c.unlock()
	if f := c.fault("close"); f != nil {
		// a failing Close still closes
		_ = f
	}
	if c.closed {
		return &net.OpError{Op: "close", Net: "sim", Err: net.ErrClosed}
	}
	c.closed = true
	c.ClosedAt = c.env.Now()
	c.ClosedStep = c.env.Step
	c.SC.Closed = true
	c.signal()
	c.env.Ev("c%d close", c.N)
	return nil
}

func (c *Conn) IsClosed() bool {
	c.lock()
	defer c.unlock()
	return c.closed
}

func (c *Conn) LocalAddr() net.Addr  { return simAddr("client") }
func (c *Conn) RemoteAddr() net.Addr { return simAddr(c.Addr) }

func (c *Conn) SetDeadline(t time.Time) error {
	if err := c.SetReadDeadline(t); err != nil {
		return err
	}
	return c.SetWriteDeadline(t)
}

func (c *Conn) setReadDeadline(t time.Time) error {
	simrt.Yield("simnet:SetReadDeadline")
	if c.env.frozen.Load() {
		return net.ErrClosed
	}
	c.env.lock()
	defer c.env.unlock()
	c.lock()
	defer c.unlock()
	if f := c.fault("deadline"); f != nil {
		return &net.OpError{Op: "set", Net: "sim", Err: errors.New("injected deadline error")}
	}
	if c.closed {
		return &net.OpError{Op: "set", Net: "sim", Err: net.ErrClosed}
	}
	c.rdl = t
	c.signal()
	return nil
}

func (c *Conn) setWriteDeadline(t time.Time) error {
	simrt.Yield("simnet:SetWriteDeadline")
	if c.env.frozen.Load() {
		return net.ErrClosed
	}
	c.env.lock()
	defer c.env.unlock()
	c.lock()
	defer c.unlock()
	if f := c.fault("deadline"); f != nil {
		return &net.OpError{Op: "set", Net: "sim", Err: errors.New("injected deadline error")}
	}
	if c.closed {
		return &net.OpError{Op: "set", Net: "sim", Err: net.ErrClosed}
	}
	c.wdl = t
	c.signal()
	return nil
}

// ReadDeadline returns the currently armed read deadline (zero = none).
func (c *Conn) ReadDeadline() time.Time {
	c.lock()
	defer c.unlock()
	return c.rdl
}

// ---- scheduler-side actions ----

func (c *Conn) alive() bool {
	c.lock()
	defer c.unlock()
	return !c.closed && !c.broken && c.rerr == nil
}

func (c *Conn) execPossible() bool {
	if _, stalled := c.env.Stall[c.Srv.Idx]; stalled {
		return false
	}
	return len(c.SC.Pending) > 0 && c.Srv.Up && !c.Srv.Silent && !c.SC.Closed && c.alive()
}

// due lists the pending requests the server may execute now: all of them,
// or, on a slow server, those that arrived at least its service time ago.
func (c *Conn) due() []int {
	slow := c.env.Slow[c.Srv.Idx]
	now := int64(c.env.Now())
	var out []int
	for i, rq := range c.SC.Pending {
		if slow == 0 || rq.Arrived+int64(slow) <= now {
			out = append(out, i)
		}
	}
	return out
}

func (c *Conn) execEnabled() bool {
	return c.execPossible() && len(c.due()) > 0
}

// nextService returns how long it takes until a slow server executes the
// next of the requests it holds.
func (c *Conn) nextService() (time.Duration, bool) {
	slow := c.env.Slow[c.Srv.Idx]
	if slow == 0 || !c.execPossible() {
		return 0, false
	}
	first := c.SC.Pending[0].Arrived
	for _, rq := range c.SC.Pending {
		if rq.Arrived < first {
			first = rq.Arrived
		}
	}
	d := time.Duration(first+int64(slow)) - c.env.Now()
	if d <= 0 {
		return 0, false
	}
	return d, true
}

func (c *Conn) deliverEnabled() bool {
	c.lock()
	defer c.unlock()
	return len(c.outq) > 0 && !c.closed && c.rerr == nil
}

// execOne lets the server execute one pending request of this connection.
func (c *Conn) execOne() {
	e := c.env
	due := c.due()
	i := due[0]
	if n := len(due); n > 1 && e.Rng.Chance(e.Knobs.Reorder) {
		i = due[e.Rng.Intn(n)]
	}
	req := c.SC.Pending[i]
	c.SC.Pending = append(c.SC.Pending[:i:i], c.SC.Pending[i+1:]...)
	e.NExec++
	e.Stats.Exec++
	if i > 0 {
		e.Probe("exec-out-of-order")
	}
	if c.Srv.Flaky && req.Method != "" {
		e.Stats.FaultKinds["flaky-drop"]++
		e.NExec++
		c.Reset("flaky server dropped the connection on a request", io.EOF)
		e.FlakyDrops = append(e.FlakyDrops, [2]int64{int64(c.N), int64(e.Now())})
		return
	}
	nlog := len(e.C.Execs)
	resp := e.C.Execute(req)
	for _, x := range e.C.Execs[nlog:] {
		for _, fc := range hb.FatalClasses {
			if x.Err == fc {
				c.Death = append(c.Death, "server sent fatal class "+fc)
			}
		}
	}
	e.Ev("c%d X call=%d %s -> %d", c.N, req.CallID, req.Method, len(resp))
	if resp == nil {
		return
	}
	if e.Mangle != nil {
		resp = e.Mangle(c, req, resp)
		if resp == nil {
			return
		}
	}
	c.lock()
	c.outq = append(c.outq, resp...)
	c.frames = append(c.frames, len(resp))
	c.Produced += len(resp)
	c.RespCount++
	for _, x := range e.C.Execs[nlog:] {
		x.RespEnd = c.Produced
	}
	c.unlock()
}

// deliverSome moves response bytes to the client's read buffer.
func (c *Conn) deliverSome() {
	e := c.env
	c.lock()
	n := 0
	if len(c.frames) > 0 {
		n = c.frames[0]
	} else {
		n = len(c.outq)
	}
	if e.Rng.Chance(e.Knobs.Chop) && n > 1 {
		n = 1 + e.Rng.Intn(n-1)
		e.Probe("deliver-chopped")
	} else if len(c.frames) > 1 && e.Rng.Chance(0.3) {
		n += c.frames[1]
		e.Probe("deliver-two-frames")
	}
	if c.CutAfter > 0 && c.Delivered+n >= c.CutAfter {
		n = c.CutAfter - c.Delivered
		if n < 0 {
			n = 0
		}
	}
	c.rbuf = append(c.rbuf, c.outq[:n]...)
	c.outq = c.outq[n:]
	c.Delivered += n
	// maintain frame boundaries
	k := n
	for k > 0 && len(c.frames) > 0 {
		if c.frames[0] <= k {
			k -= c.frames[0]
			c.frames = c.frames[1:]
			c.RespConsumed++
		} else {
			c.frames[0] -= k
			k = 0
		}
	}
	cut := c.CutAfter > 0 && c.Delivered >= c.CutAfter
	if cut {
		c.rerr = io.EOF
		c.broken = true
		c.outq, c.frames = nil, nil
		c.Death = append(c.Death, fmt.Sprintf("connection cut by peer after %d bytes", c.Delivered))
		e.Stats.FaultKinds["read-cut"]++
		e.Stats.FaultsFired++
	}
	c.signal()
	c.unlock()
	e.NDeliver++
	e.Stats.Deliver++
	e.Ev("c%d D %d cut=%v", c.N, n, cut)
}

// Reset makes the server side drop the connection.
func (c *Conn) Reset(why string, err error) {
	c.lock()
	if c.rerr == nil {
		c.rerr = err
	}
	c.broken = true
	c.outq, c.frames = nil, nil
	c.SC.Pending = nil
	c.Death = append(c.Death, why)
	c.signal()
	c.unlock()
	c.env.Ev("c%d reset %s", c.N, why)
}

// ---- ZooKeeper ----

// ZK is the simulated zk.Client.
type ZK struct {
	env     *Env
	Fail    int           // fail the next n lookups
	Delay   time.Duration // delay of each lookup
	Started int           // lookups begun (Queries lists them when they end)
	Queries []ZKQuery
}

type ZKQuery struct {
	Res  string
	At   time.Duration
	Step uint64
	Err  bool
}

func (z *ZK) locateResource(r zk.ResourceName) (string, error) {
	simrt.Yield("simzk:Locate")
	e := z.env
	if e.frozen.Load() {
		return "", errors.New("zk: closed")
	}
	e.lock()
	q := ZKQuery{Res: string(r), At: e.Now(), Step: e.Step}
	z.Started++
	delay := z.Delay
	e.unlock()
	if delay > 0 {
		simrt.RaceOff()
		t := time.NewTimer(delay)
		select {
		case <-t.C:
		case <-e.frozenCh:
			t.Stop()
		}
		simrt.RaceOn()
		simrt.Woke("simzk:Locate")
		if e.frozen.Load() {
			return "", errors.New("zk: closed")
		}
	}
	e.lock()
	defer e.unlock()
	if z.Fail != 0 {
		if z.Fail > 0 {
			z.Fail--
		}
		q.Err = true
		z.Queries = append(z.Queries, q)
		e.Stats.FaultKinds["zk-error"]++
		e.Ev("zk %s -> error", r)
		return "", errors.New("zk: could not connect to a server (simulated)")
	}
	z.Queries = append(z.Queries, q)
	var addr string
	switch {
	case len(r) >= 7 && string(r[len(r)-7:]) == "/master":
		addr = e.C.Servers[e.C.Master].Addr
	default:
		addr = e.C.Servers[e.C.MetaZK].Addr
	}
	e.Ev("zk %s -> %s", r, addr)
	return addr, nil
}

// ---- entry points of the code under test (see package seam) ----

// Dial is the RegionDialer handed to the client.
func (e *Env) Dial(ctx context.Context, network, addr string) (c net.Conn, err error) {
	seam.Enter(func() { c, err = e.dial(ctx, network, addr) })
	return
}

func (c *Conn) Read(p []byte) (n int, err error) {
	seam.Enter(func() { n, err = c.read(p) })
	if n > 0 {
		seam.WriteBuf(p[:n])
	}
	return
}

func (c *Conn) Write(p []byte) (n int, err error) {
	seam.ReadBuf(p)
	seam.Enter(func() { n, err = c.write(p) })
	return
}

func (c *Conn) Close() (err error) {
	seam.Enter(func() { err = c.closeConn() })
	return
}

func (c *Conn) SetReadDeadline(t time.Time) (err error) {
	seam.Enter(func() { err = c.setReadDeadline(t) })
	return
}

func (c *Conn) SetWriteDeadline(t time.Time) (err error) {
	seam.Enter(func() { err = c.setWriteDeadline(t) })
	return
}

func (z *ZK) LocateResource(r zk.ResourceName) (addr string, err error) {
	seam.Enter(func() { addr, err = z.locateResource(r) })
	return
}
