package sim

import (
	"context"
	"fmt"
	"os"
	"runtime"
	"strings"
	"sync/atomic"
	"time"

	"gosim/hb"
	"gosim/rng"

	"github.com/tsuna/gohbase"
	simrt "github.com/tsuna/gohbase/verifsimrt"
)

// Violation is one oracle failure.
type Violation struct {
	Prop   string `json:"prop"`
	Oracle string `json:"oracle"`
	Msg    string `json:"msg"`
	Step   uint64 `json:"step"`
	FakeNS int64  `json:"fake_ns"`
}

func (v Violation) Signature() string { return v.Prop + " " + v.Oracle }

// Outcome is the result of one simulated run.
type Outcome struct {
	Profile    string         `json:"profile"`
	Seed       uint64         `json:"seed"`
	Reason     string         `json:"reason"`
	Steps      uint64         `json:"steps"`
	FakeNS     int64          `json:"fake_ns"`
	Digest     string         `json:"digest"`
	NEv        int            `json:"n_events"`
	Violations []Violation    `json:"violations,omitempty"`
	Stats      Stats          `json:"stats"`
	Nontrivial bool           `json:"nontrivial"`
	Panic      string         `json:"panic,omitempty"`
	Leaked     int            `json:"leaked"`
	PlanSig    string         `json:"plan_sig"`
	Trace      []string       `json:"trace,omitempty"`
	Sample     string         `json:"sample,omitempty"`
	Extra      map[string]int `json:"extra,omitempty"`
}

// Profile describes how a property is exercised and judged.
type Profile struct {
	Name string
	Prop string
	// Generate builds the plan for a seed.
	Generate func(seed uint64, r *rng.Rand) *Plan
	// After runs inside the bubble after the main loop (extra phases).
	After func(w *World, reason string)
	// Check evaluates the oracles after the run (still inside the bubble).
	Check func(w *World, reason string) []Violation
	// Nontrivial says whether the run counts toward distinct_nontrivial.
	Nontrivial func(w *World) bool
	// Setup customises the world before tasks start.
	Setup func(w *World)
	// Drive, if set, replaces the main scheduler loop (default: Loop until all tasks are done).
	Drive func(w *World) string
	// Custom, if set, replaces the standard world entirely.
	Custom func(p *Plan, keep bool) *Outcome
}

var Profiles = map[string]*Profile{}

func register(p *Profile) {
	if gen := p.Generate; gen != nil {
		p.Generate = func(seed uint64, r *rng.Rand) *Plan { return capSplits(gen(seed, r)) }
	}
	Profiles[p.Name] = p
}

// capSplits drops split faults that would take a plan beyond 6 user regions:
// the region sets of the connection cache are pointer-keyed maps, whose
// iteration order the runtime overlay controls only up to 8 entries (one
// regionserver may host every region plus hbase:meta).
func capSplits(p *Plan) *Plan {
	if p == nil {
		return p
	}
	n := 0
	for _, t := range p.Layout.Tables {
		n += len(t.Splits) + 1
	}
	out := p.Faults[:0]
	for _, f := range p.Faults {
		if f.Act == "split" {
			if n >= 6 {
				continue
			}
			n++
		}
		out = append(out, f)
	}
	p.Faults = out
	return p
}

// BuildCluster creates the model cluster of a layout.
func BuildCluster(l Layout) *hb.Cluster {
	c := hb.NewCluster(l.Servers)
	c.Meta, c.MetaZK, c.Master = l.Meta%l.Servers, l.Meta%l.Servers, l.Master%l.Servers
	if l.HostCase {
		for _, s := range c.Servers {
			s.Addr = fmt.Sprintf("RS%d.Example.COM:16020", s.Idx)
			if l.Servers > 1 && s.Idx == l.Servers-1 {
				// one server is known by an IPv6 address the way HBase writes it
				// into hbase:meta: no brackets
				s.Addr = fmt.Sprintf("2001:db8::%d:16020", 16+s.Idx)
			}
		}
	}
	for _, t := range l.Tables {
		c.CreateTable(t.Name, t.Splits, t.First, t.IDs)
		for _, r := range t.Rows {
			row := &hb.Row{Key: r.Key, Cells: map[string][]byte{}}
			for k, v := range r.Cells {
				row.Cells[k] = v
			}
			c.Tables[t.Name].Rows[string(r.Key)] = row
		}
	}
	return c
}

func clientOptions(e *Env, k ClientKnobs) []gohbase.Option {
	opts := []gohbase.Option{gohbase.RegionDialer(e.Dial), gohbase.Logger(discard)}
	if k.QueueSize > 0 {
		opts = append(opts, gohbase.RpcQueueSize(k.QueueSize))
	}
	if k.FlushMS != 0 {
		d := ms(k.FlushMS)
		if k.FlushMS < 0 {
			d = 0
		}
		opts = append(opts, gohbase.FlushInterval(d))
	}
	if k.ReadTimeoutMS > 0 {
		opts = append(opts, gohbase.RegionReadTimeout(ms(k.ReadTimeoutMS)))
	}
	if k.LookupMS > 0 {
		opts = append(opts, gohbase.RegionLookupTimeout(ms(k.LookupMS)))
	}
	if k.Snappy {
		opts = append(opts, gohbase.CompressionCodec("snappy"))
	}
	return opts
}

// RunPlan executes one plan under the profile and returns its outcome.
func RunPlan(pr *Profile, p *Plan, keep bool) *Outcome {
	if pr.Custom != nil {
		return pr.Custom(p, keep)
	}
	out := &Outcome{Profile: pr.Name, Seed: p.Seed}
	var w *World
	pan := simrt.Run(p.Seed, !p.Free, func() {
		c := BuildCluster(p.Layout)
		c.ScanKnobs = p.Scan
		c.PermuteMulti = p.Permute
		c.ChunkLen = p.ChunkLen
		for _, r := range p.Rules {
			rr := *r
			c.Rules = append(c.Rules, &rr)
		}
		e := NewEnv(p.Seed, c)
		e.Keep = keep
		e.FreeMode = p.Free
		if p.Sched.MaxSteps != 0 {
			e.Knobs = p.Sched
		}
		for _, f := range p.Faults {
			ff := *f
			e.Faults = append(e.Faults, &ff)
		}
		for _, f := range p.ConnFaults {
			ff := *f
			e.ConnFaults = append(e.ConnFaults, &ff)
		}
		for k, v := range p.DialFaults {
			e.DialFaults[k] = v
		}
		e.Begin()
		w = &World{Env: e, Plan: p, filterOpt: newFilterOpt(), sharedScanOpts: newSharedScanOpts()}
		resetTableSlices()
		w.root, w.stop = context.WithCancel(context.Background())
		if p.Client.Admin {
			w.Admin = gohbase.VerifNewAdminClient(e.ZK, clientOptions(e, p.Client)...)
		} else {
			w.Client = gohbase.VerifNewClient(e.ZK, clientOptions(e, p.Client)...)
		}
		e.CancelOp = w.cancelOp
		e.CloseClient = func() { simrt.Go("closer", w.closeClient) }
		w.Recs = make([][]*OpRec, len(p.Tasks))
		for t := range p.Tasks {
			for i := range p.Tasks[t].Ops {
				w.Recs[t] = append(w.Recs[t], &OpRec{Task: t, Idx: i, Op: &p.Tasks[t].Ops[i]})
			}
		}
		if pr.Setup != nil {
			pr.Setup(w)
		}
		w.TaskG = make([]*simrt.G, len(p.Tasks))
		for t := range p.Tasks {
			t := t
			simrt.Go(fmt.Sprintf("task%d", t), func() { w.runTask(t) })
		}
		for _, g := range simrt.Live() {
			var t int
			if n, _ := fmt.Sscanf(g.Label, "task%d", &t); n == 1 && t < len(w.TaskG) {
				w.TaskG[t] = g
			}
		}
		var reason string
		if pr.Drive != nil {
			reason = pr.Drive(w)
		} else {
			reason = e.Loop(w.AllDone)
		}
		if pr.After != nil && e.StopErr == nil {
			pr.After(w, reason)
		}
		out.Reason = reason
		if e.StopErr != nil && e.StopErr != errStop {
			ip := pr.Prop
			if m := e.StopErr.Error(); len(m) > 3 && m[0] == 'C' && m[3] == ' ' {
				ip = m[:3]
			}
			out.Violations = append(out.Violations, Violation{Prop: ip, Oracle: "invariant", Msg: e.StopErr.Error(), Step: e.Step, FakeNS: int64(e.Now())})
		}
		for _, v := range c.Viol {
			prop := pr.Prop
			if len(v) > 3 && v[0] == 'C' {
				prop = v[:3]
			}
			out.Violations = append(out.Violations, Violation{Prop: prop, Oracle: "server-observer", Msg: v, Step: e.Step, FakeNS: int64(e.Now())})
		}
		for _, v := range simrt.Violations() {
			out.Violations = append(out.Violations, Violation{Prop: "C03", Oracle: v[0], Msg: v[1], Step: e.Step, FakeNS: int64(e.Now())})
		}
		if pr.Check != nil {
			out.Violations = append(out.Violations, pr.Check(w, reason)...)
		}
		if pr.Nontrivial != nil {
			out.Nontrivial = pr.Nontrivial(w)
		}
		if os.Getenv("VERIF_DEBUG") == "execs" {
			for _, x := range c.Execs {
				fmt.Fprintf(os.Stderr, "EXEC seq=%d step=%d arr=%d nonce=%d %s conn=%d call=%d multi=%d reg=%d pos=%d region=%q row=%q err=%s applied=%v respEnd=%d\n",
					x.Seq, x.Step, x.ArrStep, x.Nonce, x.Kind, x.Conn, x.CallID, x.Multi, x.RegPos, x.MultiPos, x.Region, x.Row, x.Err, x.Applied, x.RespEnd)
			}
			for _, t := range w.Recs {
				for _, r := range t {
					fmt.Fprintf(os.Stderr, "OP task=%d idx=%d %s invoke=%d return=%d done=%v ok=%v err=%s\n", r.Task, r.Idx, r.Op.Kind, r.Invoke, r.Return, r.Done, r.AllOK, r.Slot.ErrStr)
					for i, s := range r.Slots {
						fmt.Fprintf(os.Stderr, "   slot %d nonce=%d %s hasMsg=%v err=%s\n", i, s.Nonce, s.Kind, s.HasMsg, firstLine(s.ErrStr))
					}
				}
			}
		}
		if os.Getenv("VERIF_DEBUG") != "" {
			if w.Client != nil {
				if st, ok := gohbase.VerifSnapshot(w.Client); ok {
					for _, r := range st.Regions {
						fmt.Fprintf(os.Stderr, "CACHE %q table=%q [%q,%q) id=%d dead=%v unavailable=%v client=%q\n", r.Name, r.Table, r.Start, r.Stop, r.ID, r.Dead, r.Unavailable, r.ClientAddr)
					}
				}
			}
			for _, r := range c.Regions {
				fmt.Fprintf(os.Stderr, "MODEL %q [%q,%q) state=%v server=%d\n", r.Name, r.Start, r.Stop, r.State, r.Server)
			}
			for _, g := range simrt.Live() {
				fmt.Fprintf(os.Stderr, "LIVE %v parked=%v\n", g, g.Parked())
			}
			if os.Getenv("VERIF_DEBUG") == "stack" {
				fmt.Fprintln(os.Stderr, StackDump())
			}
		}
		for _, lim := range []int{2000, 5000, 10000, 20000} {
			if e.MaxInstantSteps > lim {
				e.Probe(fmt.Sprintf("instant-steps>%d", lim))
			}
		}
		out.Steps, out.FakeNS, out.Digest, out.NEv = e.Step, int64(e.Now()), e.Digest(), e.NEv
		out.Stats = e.Stats
		out.Trace = e.Trace
		TeardownOut.Store(out)
		TeardownPlan.Store(p)
		TeardownSince.Store(realNow())
		w.teardown()
	})
	TeardownSince.Store(0)
	if pan != nil {
		s := fmt.Sprint(pan)
		if strings.Contains(s, "blocked goroutines remain") {
			out.Leaked = 1
		} else {
			out.Panic = s
		}
	}
	return out
}

// Teardown state for the worker's real-time watchdog: a goroutine of the code
// under test that spins forever (no blocking operation) keeps the bubble from
// ending; the worker then reports the run and exits.
var (
	TeardownSince atomic.Int64 // unix nanos of the start of the current teardown, 0 = none
	TeardownOut   atomic.Pointer[Outcome]
	TeardownPlan  atomic.Pointer[Plan]
)

// teardown frees every goroutine so that the bubble can end.
func (w *World) teardown() {
	e := w.Env
	e.frozen.Store(true)
	close(e.frozenCh)
	simrt.Free()
	w.stop()
	if w.Client != nil {
		w.Client.Close()
	}
	if w.Admin != nil {
		gohbase.VerifCloseAdmin(w.Admin)
	}
	for _, c := range e.Conns {
		c.lock()
		if !c.closed {
			c.closed = true
			c.signal()
		}
		c.unlock()
	}
	// let released goroutines finish; fake time advances freely
	for i := 0; i < 12; i++ {
		time.Sleep(30 * time.Minute)
		runtime.Gosched()
	}
}

// StackDump returns the stacks of all goroutines (for leak / wedge diagnosis).
func StackDump() string {
	buf := make([]byte, 1<<20)
	n := runtime.Stack(buf, true)
	return string(buf[:n])
}
