package sim

import (
	"bytes"
	"fmt"
	"sort"
	"strings"

	"gosim/hb"
	"gosim/rng"

	"github.com/tsuna/gohbase"
	"github.com/tsuna/gohbase/hrpc"
	"github.com/tsuna/gohbase/region"
	simrt "github.com/tsuna/gohbase/verifsimrt"
)

// C08 (ii) — history check of the real keyRegionCache against an interval model.

type c08Region struct {
	Table       string
	Start, Stop []byte
	ID          uint64
}

type c08Op struct {
	Kind string // put | del | get
	Reg  int    // index into the run's region pool
	Key  []byte
	Tbl  string
}

func (r c08Region) name() string {
	return fmt.Sprintf("%s,%s,%d.%032x.", r.Table, r.Start, r.ID, r.ID*2654435761)
}

func genC08Pool(g *Gen) []c08Region {
	tables := tableNames[g.R.Intn(len(tableNames))]
	if len(tables) > 2 {
		tables = tables[:2]
	}
	bounds := g.Splits(g.R.Range(1, 6), 3)
	for i := range bounds {
		if g.R.Chance(0.12) {
			// keys at and beyond eight 0xff bytes (the scanner's padding constant)
			bounds[i] = append(bytes.Repeat([]byte{0xff}, 8), bounds[i][:g.R.Intn(len(bounds[i])+1)]...)
		}
	}
	bounds = append([][]byte{{}}, bounds...)
	var pool []c08Region
	n := g.R.Range(2, 14)
	for i := 0; i < n; i++ {
		a := bounds[g.R.Intn(len(bounds))]
		var b []byte
		if g.R.Chance(0.75) {
			b = bounds[g.R.Intn(len(bounds))]
		} else {
			b = g.Key(3)
		}
		if len(b) != 0 && bytes.Compare(a, b) >= 0 {
			a, b = b, a
			if bytes.Equal(a, b) {
				b = []byte{} // unbounded
			}
		}
		pool = append(pool, c08Region{Table: tables[g.R.Intn(len(tables))], Start: a, Stop: b,
			ID: []uint64{1, 2, 3, 5, 10, 100, 1500000000000}[g.R.Intn(7)] + uint64(g.R.Intn(3))})
	}
	return pool
}

type c08Model struct {
	cached map[string]int // name -> pool index
	dead   map[int]bool
}

func overlap(a, b c08Region) bool {
	return a.Table == b.Table && (len(b.Stop) == 0 || bytes.Compare(a.Start, b.Stop) < 0) && (len(a.Stop) == 0 || bytes.Compare(a.Stop, b.Start) > 0)
}

func runC08(p *Plan, keep bool) *Outcome {
	out := &Outcome{Profile: "c08", Seed: p.Seed, Extra: map[string]int{}}
	pan := simrt.Run(p.Seed, true, func() {
		e := NewEnv(p.Seed, hb.NewCluster(1))
		e.Keep = keep
		e.Begin()
		g := &Gen{R: rng.New(rng.Derive(p.Seed, 808))}
		pool := genC08Pool(g)
		infos := make([]hrpc.RegionInfo, len(pool))
		mk := func(i int) hrpc.RegionInfo {
			r := pool[i]
			var ns []byte
			tb := r.Table
			if j := strings.IndexByte(tb, ':'); j >= 0 {
				ns, tb = []byte(tb[:j]), tb[j+1:]
			}
			return region.NewInfo(r.ID, ns, []byte(tb), []byte(r.name()), r.Start, r.Stop)
		}
		for i := range pool {
			infos[i] = mk(i)
		}
		cache := gohbase.VerifNewRegionCache()
		model := &c08Model{cached: map[string]int{}, dead: map[int]bool{}}
		add := func(oracle, format string, a ...any) {
			if len(out.Violations) < 5 {
				out.Violations = append(out.Violations, Violation{Prop: "C08", Oracle: oracle, Msg: fmt.Sprintf(format, a...), Step: e.Step})
			}
		}
		var hmu simrt.Mutex // serialises operation + model step: the lock order is the linearisation
		nops := 0
		evictions, rejections := 0, 0
		var hist []string
		// one run in five is "free": the operations are not serialised with a
		// model step, so that two puts / dels interleave inside the cache; what
		// is checked then is what holds after any interleaving: at the end no two
		// cached regions of a table intersect, the order is right, nothing cached
		// is dead
		free := g.R.Chance(0.2)
		doOp := func(op c08Op) {
			simrt.Yield("task:c08")
			if free {
				nops++
				switch op.Kind {
				case "put":
					// a fresh object, as the client parses one from every meta row
					ri := mk(op.Reg)
					if _, rep := cache.Put(ri); rep {
						evictions++
					} else {
						rejections++
					}
					infos[op.Reg] = ri // visible to del / ctx once the put has returned
				case "del":
					cache.Del(infos[op.Reg])
				case "get":
					cache.Get([]byte(op.Tbl), op.Key)
				case "ctx":
					_ = infos[op.Reg].Context()
				}
				return
			}
			if op.Kind == "ctx" {
				// a user of the region (its establisher) asks for its context, not
				// synchronised with whoever is changing the cache
				_ = infos[op.Reg].Context()
				return
			}
			hmu.Lock()
			defer hmu.Unlock()
			nops++
			switch op.Kind {
			case "put":
				r := pool[op.Reg]
				if model.dead[op.Reg] {
					// a dead region object is not re-inserted by the client; use a fresh object
					infos[op.Reg] = mk(op.Reg)
					model.dead[op.Reg] = false
				}
				gotOv, gotRep := cache.Put(infos[op.Reg])
				var wantOv []string
				wantRep := false
				if _, ok := model.cached[r.name()]; ok {
					wantOv = []string{r.name()}
				} else {
					younger := false
					for n, j := range model.cached {
						if overlap(pool[j], r) {
							wantOv = append(wantOv, n)
							if pool[j].ID > r.ID {
								younger = true
							}
						}
					}
					if !younger {
						wantRep = true
						for _, n := range wantOv {
							model.dead[model.cached[n]] = true
							delete(model.cached, n)
						}
						model.cached[r.name()] = op.Reg
						if len(wantOv) > 0 {
							evictions++
						}
					} else {
						rejections++
					}
				}
				var got []string
				for _, o := range gotOv {
					got = append(got, string(o.Name()))
				}
				sort.Strings(got)
				sort.Strings(wantOv)
				hist = append(hist, fmt.Sprintf("put %s [%q,%q) id=%d -> overlaps=%d replaced=%v", r.Table, r.Start, r.Stop, r.ID, len(got), gotRep))
				if fmt.Sprint(got) != fmt.Sprint(wantOv) || gotRep != wantRep {
					add("put-result", "after %v: put of %q returned overlaps=%q replaced=%v, the interval model says overlaps=%q replaced=%v", hist, r.name(), got, gotRep, wantOv, wantRep)
				}
			case "del":
				r := pool[op.Reg]
				got := cache.Del(infos[op.Reg])
				_, want := model.cached[r.name()]
				if want && model.cached[r.name()] != op.Reg {
					want = true
				}
				delete(model.cached, r.name())
				model.dead[op.Reg] = true
				hist = append(hist, fmt.Sprintf("del %s [%q,%q) id=%d -> %v", r.Table, r.Start, r.Stop, r.ID, got))
				if got != want {
					add("del-result", "after %v: del of %q returned %v, model says %v", hist, r.name(), got, want)
				}
			case "get":
				got := cache.Get([]byte(op.Tbl), op.Key)
				var want string
				for n, j := range model.cached {
					r := pool[j]
					if r.Table == op.Tbl && bytes.Compare(op.Key, r.Start) >= 0 && (len(r.Stop) == 0 || bytes.Compare(op.Key, r.Stop) < 0) {
						want = n
					}
				}
				g := ""
				if got != nil {
					g = string(got.Name())
				}
				if g != want {
					add("lookup", "after %v: lookup(%q,%q) returned %q, brute force over the model says %q", hist, op.Tbl, op.Key, g, want)
				}
				return
			}
			// contents, order and dead marks (the regions' contexts are not asked
			// for here: whether a region that is evicted before or while its first
			// user asks for its context ends up dead is part of what is checked)
			snap := cache.SnapshotLight()
			var names []string
			for _, s := range snap {
				names = append(names, s.Name)
			}
			var want []string
			for n := range model.cached {
				want = append(want, n)
			}
			sort.Strings(want)
			sorted := append([]string(nil), names...)
			sort.Strings(sorted)
			if fmt.Sprint(sorted) != fmt.Sprint(want) {
				add("contents", "after %v: cache holds %q, the model holds %q", hist, names, want)
			}
			for i := range snap {
				for j := i + 1; j < len(snap); j++ {
					if snap[i].Table == snap[j].Table && rangesOverlap(snap[i].Start, snap[i].Stop, snap[j].Start, snap[j].Stop) {
						add("overlap", "after %v: cache holds overlapping regions %q and %q", hist, snap[i].Name, snap[j].Name)
					}
				}
				if i > 0 && cmpTuple(snap[i-1], snap[i]) >= 0 {
					add("tree-order", "after %v: %q is ordered before %q", hist, snap[i-1].Name, snap[i].Name)
				}
			}
			for i := range pool {
				if model.dead[i] && infos[i].Context().Err() == nil {
					add("dead-mark", "after %v: region %q was evicted or deleted and is not marked dead", hist, pool[i].name())
				}
			}
		}
		// at the end: nothing that is cached, and nothing the model has alive, is dead
		finalCheck := func() {
			for _, sn := range cache.Snapshot() {
				if sn.Dead {
					add("dead-cached", "after %v: cached region %q is marked dead", hist, sn.Name)
				}
			}
			for i := range pool {
				if model.dead[i] != (infos[i].Context().Err() != nil) {
					add("dead-mark", "after %v: region %q dead=%v, model says %v", hist, pool[i].name(), infos[i].Context().Err() != nil, model.dead[i])
				}
			}
		}
		nt := g.R.Range(1, 4)
		done := 0
		for t := 0; t < nt; t++ {
			n := g.R.Range(1, 60/nt+1)
			var ops []c08Op
			for i := 0; i < n; i++ {
				switch x := g.R.Intn(12); {
				case x >= 10:
					ops = append(ops, c08Op{Kind: "ctx", Reg: g.R.Intn(len(pool))})
				case x < 6:
					ops = append(ops, c08Op{Kind: "put", Reg: g.R.Intn(len(pool))})
				case x < 8:
					ops = append(ops, c08Op{Kind: "del", Reg: g.R.Intn(len(pool))})
				default:
					r := pool[g.R.Intn(len(pool))]
					ops = append(ops, c08Op{Kind: "get", Tbl: r.Table, Key: g.KeyNear([][]byte{r.Start, r.Stop}, 3)})
				}
			}
			simrt.Go(fmt.Sprintf("task%d", t), func() {
				for _, op := range ops {
					doOp(op)
				}
				done++
			})
		}
		out.Reason = e.Loop(func() bool { return done == nt })
		if done == nt && !free {
			finalCheck()
		}
		if done == nt && free {
			snap := cache.Snapshot()
			for i := range snap {
				for j := i + 1; j < len(snap); j++ {
					if snap[i].Table == snap[j].Table && rangesOverlap(snap[i].Start, snap[i].Stop, snap[j].Start, snap[j].Stop) {
						add("overlap", "after %d unserialised operations of %d tasks: the cache holds overlapping regions %q and %q", nops, nt, snap[i].Name, snap[j].Name)
					}
				}
				if i > 0 && cmpTuple(snap[i-1], snap[i]) >= 0 {
					add("tree-order", "after %d unserialised operations: %q is ordered before %q", nops, snap[i-1].Name, snap[i].Name)
				}
				if snap[i].Dead {
					add("dead-cached", "after %d unserialised operations: cached region %q is marked dead", nops, snap[i].Name)
				}
			}
		}
		out.Nontrivial = evictions+rejections > 0
		out.Extra["operations"] = nops
		out.Extra["evictions"] = evictions
		out.Extra["rejected_as_older"] = rejections
		out.Steps, out.FakeNS, out.Digest, out.NEv = e.Step, int64(e.Now()), e.Digest(), e.NEv
		for _, h := range hist {
			e.Ev("%s", h)
		}
		out.Digest = e.Digest()
		out.Stats = e.Stats
		out.Trace = e.Trace
		simrt.Free()
	})
	if pan != nil {
		out.Panic = fmt.Sprint(pan)
	}
	return out
}

func init() {
	register(&Profile{Name: "c08", Prop: "C08", Custom: runC08,
		Generate: func(seed uint64, r *rng.Rand) *Plan { return &Plan{Profile: "c08", Seed: seed} }})
}
