// Package sim is the deterministic simulator: the seeded scheduler, the
// simulated network and ZooKeeper, the workload driver and the oracles.
package sim

import (
	"crypto/sha256"
	"encoding/hex"
	"fmt"
	"hash"
	"sync"
	"sync/atomic"
	"time"

	"gosim/hb"
	"gosim/rng"

	simrt "github.com/tsuna/gohbase/verifsimrt"
)

// SchedKnobs are per-run scheduler settings (swarm).
type SchedKnobs struct {
	WRun     float64 // weight of running a parked goroutine
	WExec    float64 // weight of executing a pending request on a server
	WDeliver float64 // weight of delivering response bytes
	Sticky   float64 // probability of continuing the goroutine that ran last, if parked
	Starve   float64 // probability of letting time pass although work is enabled
	Reorder  float64 // probability of executing a request other than the oldest of a connection
	Chop     float64 // probability a delivery is cut inside a frame
	MaxSteps uint64
	MaxFake  time.Duration
	MaxIdle  time.Duration // longest single sleep
}

// DefaultKnobs returns the baseline scheduler settings.
func DefaultKnobs() SchedKnobs {
	return SchedKnobs{WRun: 6, WExec: 2, WDeliver: 2, Sticky: 0.3, Reorder: 0.3, Chop: 0.2,
		MaxSteps: 30000, MaxFake: 20 * time.Minute, MaxIdle: time.Hour}
}

// Env is one simulated world.
type Env struct {
	// mu serialises every access of the simulated network, ZooKeeper and
	// cluster model. In controlled mode it is never contended (one goroutine
	// runs at a time); in free (-race) mode it keeps the harness itself free
	// of data races.
	mu     sync.Mutex
	Seed   uint64
	Rng    *rng.Rand
	C      *hb.Cluster
	Knobs  SchedKnobs
	Conns  []*Conn
	Step   uint64
	T0     time.Time
	digest hash.Hash
	NEv    int
	Trace  []string
	Keep   bool // keep textual trace
	lastG  *simrt.G

	Faults     []*Fault
	ConnFaults []*ConnFault
	ZK         *ZK
	Dials      []*DialRec
	DialFaults map[int]string        // dial ordinal (1-based) -> error text
	DialDelay  time.Duration         // every dial takes this long (and honours its context)
	Slow       map[int]time.Duration // server index -> service time: a request is executed no earlier than this long after it arrived
	Stall      map[int]int           // server index -> window in bytes: the server does not read; writes block once the window is full

	// counters usable as fault triggers
	NExec, NFrames, NDeliver, NDials int

	// per-step hooks
	Invariant func() error
	OnStep    func()
	StopErr   error

	Stats Stats
	gbuf  []*simrt.G
	// Mangle lets a fault rewrite (or drop, by returning nil) a response frame.
	Mangle func(c *Conn, req *hb.Request, resp []byte) []byte

	FlakyDrops  [][2]int64
	ExtraAct    func(f *Fault) bool // profile-specific fault actions
	CutAfterAll int                 // cut every connection after this many delivered bytes
	CancelOp    func(task, op, slot int)
	CloseClient func()
	StableAt    time.Duration
	StableStep  uint64

	FreeMode   bool // free (-race) mode: goroutines are not scheduled by the simulator
	freeQ      time.Duration
	Quiet      bool // restrict scheduler to running goroutines (no time, no network); C13
	QuietLog   []string
	Stabilized bool
	frozen     atomic.Bool
	stepA      atomic.Uint64 // mirror of Step for task goroutines (free mode)
	// scheduler steps taken without any advance of the fake clock: current
	// count and maximum over the run (a hot loop shows as a huge instant)
	instantSteps, MaxInstantSteps int
	frozenCh                      chan struct{} // closed at teardown: every wait of the simulated network ends
}

// Stats are per-run reach counters.
type Stats struct {
	Steps, RunG, Exec, Deliver, Advance, FaultsFired int
	FakeNS                                           int64
	FaultKinds                                       map[string]int
	Probes                                           map[string]int
	SelectTies                                       int
}

func NewEnv(seed uint64, c *hb.Cluster) *Env {
	e := &Env{Seed: seed, Rng: rng.New(rng.Derive(seed, 1)), C: c, Knobs: DefaultKnobs(), digest: sha256.New(),
		DialFaults: map[int]string{}, Stall: map[int]int{}, Slow: map[int]time.Duration{}, frozenCh: make(chan struct{})}
	e.Stats.FaultKinds = map[string]int{}
	e.Stats.Probes = map[string]int{}
	e.ZK = &ZK{env: e}
	c.Rand = rng.New(rng.Derive(seed, 2))
	return e
}

// Begin must be called inside the bubble before anything else.
func (e *Env) Begin() {
	e.T0 = time.Now()
	e.C.Now = func() int64 { return int64(time.Since(e.T0)) }
	e.C.StepFn = func() uint64 { return e.Step }
}

// lock / unlock guard the simulated world. They are invisible to the race
// detector (simrt.RaceOff): the simulator must not add happens-before edges
// between goroutines of the code under test.
func (e *Env) lock() {
	simrt.RaceOff()
	e.mu.Lock()
	simrt.RaceOn()
}

func (e *Env) unlock() {
	simrt.RaceOff()
	e.mu.Unlock()
	simrt.RaceOn()
}

// StepNow returns the current scheduler step; safe from any goroutine.
func (e *Env) StepNow() uint64 { return e.stepA.Load() }

// Now returns fake time since the start of the run.
func (e *Env) Now() time.Duration { return time.Since(e.T0) }

// Ev records an event in the digest (and trace).
func (e *Env) Ev(format string, a ...any) {
	if e.frozen.Load() {
		return
	}
	if e.FreeMode || (simrt.RaceBuild && !e.Keep) {
		// no event log in free mode (the run is not deterministic anyway) nor in
		// race builds (hashing in the standard library is instrumented and would
		// be reported as a race of the harness with itself)
		e.NEv++
		return
	}
	s := fmt.Sprintf(format, a...)
	e.NEv++
	fmt.Fprintf(e.digest, "%d|%s\n", e.Step, s)
	if e.Keep {
		e.Trace = append(e.Trace, fmt.Sprintf("%6d %12s %s", e.Step, e.Now(), s))
	}
}

// Digest returns the hash of all events so far.
func (e *Env) Digest() string { return hex.EncodeToString(e.digest.Sum(nil))[:24] }

func (e *Env) Probe(name string) { e.Stats.Probes[name]++ }

// Loop runs the scheduler until done() reports true, a budget is exhausted or
// a hook stops the run. It returns the reason.
func (e *Env) Loop(done func() bool) string {
	idleFor := time.Duration(0)
	for {
		simrt.Wait()
		reason, sleep, early, rel := e.step(done, &idleFor)
		if reason != "" {
			return reason
		}
		switch {
		case rel != nil:
			simrt.Release(rel)
		case sleep > 0:
			before := e.Now()
			if e.FreeMode && early {
				// nobody parks in free mode, so there is no early wake-up: let
				// time pass in quanta that grow while nothing happens
				if e.freeQ == 0 {
					e.freeQ = time.Millisecond
				}
				sleep = e.freeQ
				if e.freeQ < 2*time.Second {
					e.freeQ *= 2
				}
				simrt.Sleep(sleep, false)
			} else {
				simrt.Sleep(sleep, early)
			}
			d := e.Now() - before
			e.lock()
			if d > 0 {
				e.instantSteps = 0
			}
			e.Stats.Advance++
			e.Stats.FakeNS += int64(d)
			if early {
				e.Ev("T+%d", int64(d))
				if len(simrt.ParkedGs(e.gbuf)) == 0 && !e.anyEnabled() {
					idleFor += d
				} else {
					idleFor = 0
				}
			} else {
				e.Ev("S+%d", int64(d))
			}
			e.unlock()
			if early && idleFor >= 3*e.Knobs.MaxIdle {
				return "idle"
			}
		}
	}
}

func (e *Env) anyEnabled() bool {
	for _, c := range e.Conns {
		if c.execEnabled() || c.deliverEnabled() {
			return true
		}
	}
	return false
}

// step performs one scheduler decision under the environment lock. It returns
// a reason to stop, or what the caller has to do after unlocking: sleep, or
// release a goroutine.
func (e *Env) step(done func() bool, idleFor *time.Duration) (reason string, sleep time.Duration, early bool, rel *simrt.G) {
	e.lock()
	defer e.unlock()
	e.Step++
	e.stepA.Store(e.Step)
	e.Stats.Steps++
	e.instantSteps++
	if e.instantSteps > e.MaxInstantSteps {
		e.MaxInstantSteps = e.instantSteps
	}
	simrt.SetStep(e.Step)
	if e.OnStep != nil {
		e.OnStep()
	}
	if e.Invariant != nil {
		if err := e.Invariant(); err != nil {
			e.StopErr = err
			return "invariant", 0, false, nil
		}
	}
	if e.StopErr != nil {
		return "stopped", 0, false, nil
	}
	if done() {
		return "done", 0, false, nil
	}
	if e.Step >= e.Knobs.MaxSteps {
		return "steps", 0, false, nil
	}
	if e.Now() >= e.Knobs.MaxFake {
		return "time", 0, false, nil
	}
	if e.fireFaults() {
		return "", 0, false, nil
	}
	gs := simrt.ParkedGs(e.gbuf)
	e.gbuf = gs
	var execC, delivC []*Conn
	if !e.Quiet {
		for _, c := range e.Conns {
			if c.execEnabled() {
				execC = append(execC, c)
			}
			if c.deliverEnabled() {
				delivC = append(delivC, c)
			}
		}
	}
	if len(gs) == 0 && len(execC) == 0 && len(delivC) == 0 {
		if e.Quiet {
			return "quiet-idle", 0, false, nil
		}
		// nothing to do but let time pass - at most until the next fault that
		// is due at a given time
		sleep := e.Knobs.MaxIdle
		// ... or until a slow server gets round to its next request
		for _, c := range e.Conns {
			if d, ok := c.nextService(); ok && d < sleep {
				sleep = d
			}
		}
		for _, f := range e.Faults {
			if !f.Fired && f.On == "ms" {
				if d := ms(f.N) - e.Now(); d > 0 && d < sleep {
					sleep = d
				}
			}
		}
		return "", sleep, true, nil
	}
	*idleFor = 0
	e.freeQ = 0
	if !e.Quiet && e.Knobs.Starve > 0 && e.Rng.Chance(e.Knobs.Starve) {
		ds := []time.Duration{time.Millisecond, 5 * time.Millisecond, 20 * time.Millisecond, 200 * time.Millisecond, 2 * time.Second}
		return "", ds[e.Rng.Intn(len(ds))], false, nil
	}
	w := []float64{0, 0, 0}
	if len(gs) > 0 {
		w[0] = e.Knobs.WRun
	}
	if len(execC) > 0 {
		w[1] = e.Knobs.WExec
	}
	if len(delivC) > 0 {
		w[2] = e.Knobs.WDeliver
	}
	switch e.Rng.Pick(w) {
	case 0:
		var g *simrt.G
		if e.lastG != nil && e.lastG.Parked() && e.Rng.Chance(e.Knobs.Sticky) {
			g = e.lastG
		} else {
			g = gs[e.Rng.Intn(len(gs))]
		}
		e.lastG = g
		e.Stats.RunG++
		e.Ev("G%d %s", g.Seq, g.Site)
		return "", 0, false, g
	case 1:
		c := execC[e.Rng.Intn(len(execC))]
		c.execOne()
	case 2:
		c := delivC[e.Rng.Intn(len(delivC))]
		c.deliverSome()
	}
	return "", 0, false, nil
}

// Drain runs the loop with all workload done until the world is quiet: no
// parked goroutine, nothing to execute or deliver, for the given fake time.
func (e *Env) Drain(fake time.Duration) string {
	deadline := e.Now() + fake
	save := e.Knobs.MaxIdle
	defer func() { e.Knobs.MaxIdle = save }()
	for {
		left := deadline - e.Now()
		if left <= 0 {
			e.Settle()
			return "drained"
		}
		e.Knobs.MaxIdle = left
		r := e.Loop(func() bool { return e.Now() >= deadline })
		if r != "idle" {
			if r == "done" {
				e.Settle()
				return "drained"
			}
			return r
		}
	}
}

// Settle runs the goroutines that are runnable at the current instant until
// none is left, without letting time pass and without network activity: a
// timer that has just fired (read deadline, back-off) has then been handled.
func (e *Env) Settle() {
	if e.Quiet {
		return
	}
	e.Quiet = true
	e.Loop(func() bool { return false })
	e.Quiet = false
}
