package sim

import (
	_ "unsafe"
)

// realNow returns the real monotonic clock in nanoseconds even inside a
// synctest bubble (where package time is virtual).
//
//go:linkname realNow runtime.nanotime
func realNow() int64

// RealNow is realNow for other packages.
func RealNow() int64 { return realNow() }
