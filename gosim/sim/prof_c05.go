package sim

import (
	"bytes"
	"fmt"

	"gosim/hb"
	"gosim/rng"
)

// C05 — bytes written to the server encode exactly the requested operation.
func genC05(seed uint64, r *rng.Rand) *Plan {
	g := &Gen{R: r}
	p := &Plan{Profile: "c05", Seed: seed}
	p.Layout = g.Layout(LayoutOpts{MaxServers: 2, MaxTables: 2, MaxRegions: 5, KeyLen: 3})
	for i := range p.Layout.Tables {
		g.PreloadRows(&p.Layout.Tables[i], g.R.Range(0, 8), 3)
	}
	p.Client = g.SwarmClient()
	p.Client.ReadTimeoutMS = 30000
	p.Client.Snappy = g.R.Chance(0.5)
	p.Sched = g.SwarmSched()
	p.Scan = hb.ScanKnobs{Chunky: g.R.Chance(0.5), Partial: 0.3, Heartbeat: 0.1}
	nt := g.R.Range(1, 6)
	kinds := []string{"get", "put", "del", "app", "inc", "cas", "put", "del"}
	for t := 0; t < nt; t++ {
		var ops []Op
		n := g.R.Range(1, 6)
		for i := 0; i < n; i++ {
			ts := &p.Layout.Tables[g.R.Intn(len(p.Layout.Tables))]
			switch {
			case g.R.Chance(0.25):
				ops = append(ops, g.batchOf(ts, 8, []string{"get", "put", "del", "app", "inc"}))
				for j := range ops[len(ops)-1].Batch {
					g.decorate(&ops[len(ops)-1].Batch[j])
				}
			case g.R.Chance(0.15):
				o := Op{Kind: "scan", Table: ts.Name, Nonce: g.Nonce(), Start: g.KeyNear(ts.Splits, 3), Stop: g.KeyNear(ts.Splits, 3),
					NumRows: uint32(g.R.Intn(4)), Partial: g.R.Chance(0.3), Prio: uint32(g.R.Intn(2) * 7)}
				if bytes.Compare(o.Start, o.Stop) > 0 && len(o.Stop) > 0 {
					o.Start, o.Stop = o.Stop, o.Start
				}
				if g.R.Chance(0.3) {
					o.Reversed = true
					o.Start, o.Stop = o.Stop, o.Start
					if len(o.Start) == 0 {
						o.Start = []byte{0xfe}
					}
				}
				if g.R.Chance(0.3) {
					o.Fams = map[string][]string{"cf": nil}
				}
				if g.R.Chance(0.3) {
					o.CloseAt = g.R.Range(1, 3)
				}
				if g.R.Chance(0.15) {
					o.TR = "to"
				}
				o.Filter = g.R.Chance(0.2)
				ops = append(ops, o)
			default:
				o := g.SingleOp(ts.Name, g.KeyNear(ts.Splits, 4), kinds)
				g.decorate(&o)
				ops = append(ops, o)
			}
		}
		p.Tasks = append(p.Tasks, Task{Ops: ops})
	}
	// in a third of the runs some requests are answered "try again" or "not
	// here", or their region changes: the retried request is serialised again
	// and must still say exactly what the caller built
	if g.R.Chance(0.33) {
		for i, n := 0, g.R.Range(1, 3); i < n; i++ {
			ts := &p.Layout.Tables[g.R.Intn(len(p.Layout.Tables))]
			f := &Fault{On: "exec", N: g.R.Range(1, 25), Table: ts.Name, Region: g.R.Intn(5), Server: g.R.Intn(p.Layout.Servers), To: g.R.Intn(p.Layout.Servers)}
			switch g.R.Intn(5) {
			case 0, 1:
				f.Act = "rule"
				f.Rule = &hb.Rule{Class: hb.RetryableClasses[g.R.Intn(len(hb.RetryableClasses))], Count: g.R.Range(1, 3), Server: -1, Level: []string{"action", "region", "call"}[g.R.Intn(3)]}
			case 2:
				f.Act = "rule"
				f.Rule = &hb.Rule{Class: hb.NotServingClasses[g.R.Intn(2)], Count: g.R.Range(1, 2), Server: -1, Level: []string{"action", "region"}[g.R.Intn(2)]}
			case 3:
				f.Act = "move"
			case 4:
				f.Act, f.Key = "split", g.KeyNear(ts.Splits, 3)
			}
			p.Faults = append(p.Faults, f)
		}
	}
	return p
}

// decorate adds option combinations to a single-row operation.
func (g *Gen) decorate(o *Op) {
	switch o.Kind {
	case "get":
		if g.R.Chance(0.2) {
			o.Exists = true
		}
		switch g.R.Intn(8) {
		case 0:
			// a time range that is open at the start
			o.TR = "to"
		case 1:
			// no time range at all; the server attributes the request by its row
			o.TR, o.Exists = "none", false
			o.Key = append(append([]byte(nil), o.Key...), []byte(fmt.Sprintf("~%d", o.Nonce))...)
		}
		if g.R.Chance(0.2) {
			o.MaxVer = uint32(g.R.Range(2, 5))
		}
		if g.R.Chance(0.2) && o.SkipBatch {
			o.Prio = uint32(g.R.Range(1, 200))
		}
		if g.R.Chance(0.3) {
			o.Fams = map[string][]string{"cf": {"q", "x1"}, "d": nil}
		}
	case "put", "app", "inc", "cas":
		if g.R.Chance(0.3) {
			o.TS = uint64(g.R.Range(1, 1<<40))
		}
		if g.R.Chance(0.3) {
			o.Dur = g.R.Range(1, 4)
		}
		if g.R.Chance(0.2) {
			o.TTLMS = g.R.Range(1, 100000)
		}
		if o.Kind == "put" && g.R.Chance(0.004) {
			// payload above the compression chunk size
			big := bytes.Repeat([]byte(fmt.Sprintf("%07d|", g.R.Intn(1e6))), 30000+g.R.Intn(8000))
			o.Vals = map[string]map[string][]byte{"cf": {"big": big}}
		}
		if o.Kind == "put" && g.R.Chance(0.1) {
			// empty values and empty inner maps
			o.Vals = map[string]map[string][]byte{"cf": {"": nil, "e": {}}}
		}
	case "del":
		if g.R.Chance(0.3) {
			o.Dur = g.R.Range(1, 4)
		}
		if g.R.Chance(0.2) && len(o.Vals) > 0 {
			// no timestamp: the latest version (DeleteOneVersion) or all versions;
			// the server attributes the request by its row
			o.NoTS = true
			o.Key = append(append([]byte(nil), o.Key...), []byte(fmt.Sprintf("~%d", o.Nonce))...)
		}
		if g.R.Chance(0.2) {
			o.Vals = map[string]map[string][]byte{"cf": {"q": nil, "x1": nil}, "d": nil}
		}
	}
}

func init() {
	register(&Profile{Name: "c05", Prop: "C05", Generate: genC05,
		Setup: func(w *World) {
			ops := w.opIndex()
			rows := map[string]uint64{}
			for n, op := range ops {
				if op.TR == "none" || op.NoTS {
					rows[string(op.Key)] = n
				}
			}
			w.Env.C.RowNonce = func(row []byte) uint64 { return rows[string(row)] }
			w.Env.C.OnExec = func(e *hb.Exec) {
				if len(w.pending) > 20 {
					return
				}
				for _, m := range w.WireCheck(e, ops) {
					w.pending = append(w.pending, w.viol("C05", "wire-content", "nonce %d (%s, conn %d call %d multi=%v): %s", e.Nonce, e.Kind, e.Conn, e.CallID, e.Multi != 0, m))
				}
			}
		},
		Check: func(w *World, reason string) []Violation {
			vs := w.pending
			if w.Env.StopErr == nil {
				vs = append(vs, w.AllReturned("C05", "completion")...)
			}
			// every executed mutation/get of the workload was seen at least once
			return vs
		},
		Nontrivial: func(w *World) bool { return len(w.Env.C.Execs) > 3 },
	})
}
