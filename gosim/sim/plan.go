package sim

import (
	"time"

	"gosim/hb"
)

// TableSpec describes one table of the layout.
type TableSpec struct {
	Name   string    `json:"name"`
	Splits [][]byte  `json:"splits,omitempty"`
	First  int       `json:"first"` // server of the first region; others round robin
	IDs    []uint64  `json:"ids,omitempty"`
	Rows   []RowSpec `json:"rows,omitempty"`
}

// RowSpec is a preloaded row.
type RowSpec struct {
	Key   []byte            `json:"key"`
	Cells map[string][]byte `json:"cells"` // "fam:qual" -> value
}

// Layout is the cluster at the start of a run.
type Layout struct {
	Servers int         `json:"servers"`
	Meta    int         `json:"meta"`
	Master  int         `json:"master"`
	Tables  []TableSpec `json:"tables"`
	// HostCase: the regionservers' host names contain upper-case letters
	// (RS0.Example.COM); hbase:meta and ZooKeeper publish them as they are
	HostCase bool `json:"host_case,omitempty"`
}

// ClientKnobs are the client options of a run.
type ClientKnobs struct {
	QueueSize     int  `json:"queue_size"`
	FlushMS       int  `json:"flush_ms"` // -1 = 0 interval
	ReadTimeoutMS int  `json:"read_timeout_ms"`
	LookupMS      int  `json:"lookup_timeout_ms"`
	Snappy        bool `json:"snappy"`
	Admin         bool `json:"admin,omitempty"`
}

// CtxSpec says how the context of an operation ends.
type CtxSpec struct {
	Kind string `json:"kind,omitempty"` // "", "cancel" (by fault), "timeout"
	MS   int    `json:"ms,omitempty"`   // timeout in fake ms
	Pre  bool   `json:"pre,omitempty"`  // already cancelled when the call is made
}

// Op is one workload operation.
type Op struct {
	Kind  string `json:"kind"` // get put del app inc cas batch scan cache sleep close status
	Table string `json:"table,omitempty"`
	Key   []byte `json:"key"`
	Nonce uint64 `json:"nonce,omitempty"`
	// mutations: family -> qualifier -> payload (the nonce is prepended on the wire)
	Vals map[string]map[string][]byte `json:"vals,omitempty"`
	// gets/scans: family -> qualifiers
	Fams      map[string][]string `json:"fams,omitempty"`
	DelOne    bool                `json:"del_one,omitempty"`
	NoTS      bool                `json:"no_ts,omitempty"` // deletes: no timestamp option (the latest version / all versions); attributed by row
	SkipBatch bool                `json:"skip_batch,omitempty"`
	Exists    bool                `json:"exists,omitempty"`
	TS        uint64              `json:"ts,omitempty"`  // explicit timestamp (0 = latest)
	Dur       int                 `json:"dur,omitempty"` // durability
	TTLMS     int                 `json:"ttl_ms,omitempty"`
	Prio      uint32              `json:"prio,omitempty"`
	MaxVer    uint32              `json:"max_ver,omitempty"`
	CasFam    string              `json:"cas_fam,omitempty"`
	CasQual   string              `json:"cas_qual,omitempty"`
	CasVal    []byte              `json:"cas_val,omitempty"`
	Amount    int64               `json:"amount,omitempty"`
	Batch     []Op                `json:"batch,omitempty"`
	Dup       [][2]int            `json:"dup,omitempty"` // batch: slot j repeats the call object of slot i
	// scan
	Start      []byte `json:"start"`
	Stop       []byte `json:"stop"`
	Reversed   bool   `json:"reversed,omitempty"`
	NumRows    uint32 `json:"num_rows,omitempty"`
	Partial    bool   `json:"partial,omitempty"`
	CloseAt    int    `json:"close_at,omitempty"` // call Close after this many Next calls (0 = never, -1 = before the first)
	RenewMS    int    `json:"renew_ms,omitempty"`
	PauseMS    int    `json:"pause_ms,omitempty"`    // pause between Next calls
	ScanClose  bool   `json:"scan_close,omitempty"`  // hrpc.CloseScanner option
	TR         string `json:"tr,omitempty"`          // gets/scans: "" = time range [nonce, max), "to" = [0, nonce), "none" = no time range (gets; attributed by row)
	SharedOpts bool   `json:"shared_opts,omitempty"` // scans: created from the run's one options slice (spare capacity), as parallel range scans built from a common opts variable are; only the range differs
	Filter     bool   `json:"filter,omitempty"`      // scans: built with the run's shared hrpc.Filters option value (a page filter that lets everything pass)
	Abandon    int    `json:"abandon,omitempty"`     // stop using the scanner after this many Next calls: neither Next nor Close is called again
	// sleep
	MS  int     `json:"ms,omitempty"`
	Ctx CtxSpec `json:"ctx,omitempty"`
}

// Task is a sequential caller.
type Task struct {
	Ops []Op `json:"ops"`
}

// Plan determines a run completely (together with the code).
type Plan struct {
	Profile    string         `json:"profile"`
	Seed       uint64         `json:"seed"` // scheduler / server PRNG seed
	Layout     Layout         `json:"layout"`
	Client     ClientKnobs    `json:"client"`
	Sched      SchedKnobs     `json:"sched"`
	Scan       hb.ScanKnobs   `json:"scan"`
	Permute    bool           `json:"permute_multi,omitempty"`
	ChunkLen   int            `json:"chunk_len,omitempty"`
	Tasks      []Task         `json:"tasks"`
	Faults     []*Fault       `json:"faults,omitempty"`
	ConnFaults []*ConnFault   `json:"conn_faults,omitempty"`
	DialFaults map[int]string `json:"dial_faults,omitempty"`
	Rules      []*hb.Rule     `json:"rules,omitempty"`
	// phases
	StableMS int    `json:"stable_ms,omitempty"` // liveness budget after stabilisation
	Free     bool   `json:"free,omitempty"`      // free mode (race leg)
	Scenario string `json:"scenario,omitempty"`
	// corruption (C11): probability per response / meta row, and budget
	Corrupt       float64 `json:"corrupt,omitempty"`
	CorruptMax    int     `json:"corrupt_max,omitempty"`
	CorruptMeta   float64 `json:"corrupt_meta,omitempty"`
	CorruptSticky bool    `json:"corrupt_sticky,omitempty"`
}

func ms(n int) time.Duration { return time.Duration(n) * time.Millisecond }
