package sim

import (
	"fmt"

	"gosim/rng"
)

func init() {
	register(&Profile{Name: "smoke", Prop: "C00",
		Generate: func(seed uint64, r *rng.Rand) *Plan {
			p := &Plan{Profile: "smoke", Seed: seed}
			p.Layout = Layout{Servers: 2, Tables: []TableSpec{{Name: "t", Splits: [][]byte{[]byte("g"), []byte("p")}}}}
			p.Client = ClientKnobs{QueueSize: 3, FlushMS: 5}
			nonce := uint64(0)
			for t := 0; t < 3; t++ {
				var ops []Op
				for i := 0; i < 4; i++ {
					nonce++
					key := []byte{byte('a' + r.Intn(26))}
					if r.Chance(0.5) {
						ops = append(ops, Op{Kind: "put", Table: "t", Key: key, Nonce: nonce,
							Vals: map[string]map[string][]byte{"cf": {"q": []byte(fmt.Sprintf("v%d", nonce))}}})
					} else {
						ops = append(ops, Op{Kind: "get", Table: "t", Key: key, Nonce: nonce})
					}
				}
				p.Tasks = append(p.Tasks, Task{Ops: ops})
			}
			return p
		},
		Check: func(w *World, reason string) []Violation {
			var vs []Violation
			for _, t := range w.Recs {
				for _, r := range t {
					if !r.Done || r.Slot.Err != nil {
						vs = append(vs, Violation{Prop: "C00", Oracle: "smoke", Msg: fmt.Sprintf("op %d/%d done=%v err=%v", r.Task, r.Idx, r.Done, r.Slot.Err)})
					}
				}
			}
			return vs
		},
		Nontrivial: func(w *World) bool { return true },
	})
}
