package sim

import (
	"context"
	"encoding/binary"
	"errors"
	"fmt"
	"io"
	"log/slog"
	"sync"
	"sync/atomic"
	"time"

	"gosim/hb"

	"github.com/tsuna/gohbase"
	"github.com/tsuna/gohbase/filter"
	"github.com/tsuna/gohbase/hrpc"
	"github.com/tsuna/gohbase/pb"
	"github.com/tsuna/gohbase/region"
	simrt "github.com/tsuna/gohbase/verifsimrt"
)

// RCell is a cell as returned to the caller.
type RCell struct {
	Row, Fam, Qual, Value []byte
	TS                    uint64
}

// Slot is the outcome of one call (a single op or one entry of a batch).
type Slot struct {
	Nonce     uint64
	Kind      string
	Err       error
	ErrStr    string
	ErrClass  string // "", retryable, notserving, server, ctx, closed, notexecuted, tablenotfound, app, other
	Cells     []RCell
	HasMsg    bool
	Exists    *bool
	Processed *bool
	CtxEnded  bool // the call's own context had ended when the API returned
}

// ScanItem is one (result, error) pair returned by Scanner.Next.
type ScanItem struct {
	Cells   []RCell
	Partial bool
	Err     error
	ErrStr  string
	NilRes  bool
	Step    uint64
}

// OpRec is the record of one workload operation.
type OpRec struct {
	Task, Idx        int
	Op               *Op
	Started, Done    bool
	Invoke, Return   uint64
	InvokeT, ReturnT time.Duration
	Slot             Slot   // single ops
	Slots            []Slot // batch
	AllOK            bool
	Scan             []ScanItem
	ScanCloseSteps   []uint64
	IncVal           int64
	ctx              context.Context
	cancel           context.CancelFunc
	slotCancel       []context.CancelFunc
	slotCtx          []context.Context
	CancelStep       uint64
	CancelT          time.Duration
	CancelSite       string
	CancelSlot       int
	QuietChecked     bool
}

// World ties the client under test to the simulated environment.
type World struct {
	idHigh          map[string][2]string
	idHighN         map[string]uint64
	sharedScanOpts  []func(hrpc.Call) error
	filterOpt       func(hrpc.Call) error
	Env             *Env
	Plan            *Plan
	Client          gohbase.Client
	Admin           gohbase.AdminClient
	Recs            [][]*OpRec
	root            context.Context
	stop            context.CancelFunc
	tasksDone       atomic.Int32
	ClosedStep      uint64
	ClosedT         time.Duration
	CloseReturned   bool
	TaskG           []*simrt.G
	pending         []Violation // violations found by per-step hooks
	StableReason    string
	CloseReturnStep uint64
	CloseReturnT    time.Duration
	quietMark       struct {
		set               bool
		dials, zk, frames int
	}
}

var errStop = errors.New("stopped by a per-step oracle")

var discard = slog.New(slog.NewTextHandler(io.Discard, &slog.HandlerOptions{Level: slog.LevelError + 4}))

func classify(err error) string {
	if err == nil {
		return ""
	}
	switch err.(type) {
	case region.RetryableError:
		return "retryable"
	case region.NotServingRegionError:
		return "notserving"
	case region.ServerError:
		return "server"
	}
	switch {
	case errors.Is(err, context.Canceled), errors.Is(err, context.DeadlineExceeded):
		return "ctx"
	case err == gohbase.ErrClientClosed:
		return "closed"
	case err == gohbase.NotExecutedError:
		return "notexecuted"
	case err == gohbase.TableNotFound:
		return "tablenotfound"
	case err == gohbase.ErrCannotFindRegion:
		return "cannotfind"
	}
	if len(err.Error()) > 20 && err.Error()[:20] == "HBase Java exception" {
		return "app"
	}
	return "other"
}

func toRCells(cs []*hrpc.Cell) []RCell {
	out := make([]RCell, 0, len(cs))
	for _, c := range cs {
		if c == nil {
			out = append(out, RCell{})
			continue
		}
		out = append(out, RCell{Row: c.Row, Fam: c.Family, Qual: c.Qualifier, Value: c.Value, TS: (*pb.Cell)(c).GetTimestamp()})
	}
	return out
}

func pbToRCells(cs []*pb.Cell) []RCell {
	out := make([]RCell, 0, len(cs))
	for _, c := range cs {
		if c == nil {
			out = append(out, RCell{})
			continue
		}
		out = append(out, RCell{Row: c.Row, Fam: c.Family, Qual: c.Qualifier, Value: c.Value, TS: c.GetTimestamp()})
	}
	return out
}

// nonceVal prepends the nonce to a payload.
func nonceVal(nonce uint64, payload []byte) []byte {
	return append(binary.BigEndian.AppendUint64(nil, nonce), payload...)
}

// BuildCall turns an Op into the hrpc call the real API takes.
// tableSlices holds one byte slice per table name, shared by all calls of a
// run and with spare capacity, the way applications keep their table name in
// a variable: the library must not write through it.
var (
	tableSlicesMu sync.Mutex
	tableSlices   = map[string][]byte{}
)

func resetTableSlices() {
	tableSlicesMu.Lock()
	tableSlices = map[string][]byte{}
	tableSlicesMu.Unlock()
}

func tableBytes(name string) []byte {
	tableSlicesMu.Lock()
	defer tableSlicesMu.Unlock()
	b, ok := tableSlices[name]
	if !ok {
		b = append(make([]byte, 0, len(name)+64), name...)
		tableSlices[name] = b
	}
	return b
}

func BuildCall(ctx context.Context, op *Op) (hrpc.Call, error) {
	table := tableBytes(op.Table)
	switch op.Kind {
	case "get":
		opts := []func(hrpc.Call) error{hrpc.TimeRangeUint64(op.Nonce, hrpc.MaxTimestamp)}
		switch op.TR {
		case "to":
			opts[0] = hrpc.TimeRangeUint64(0, op.Nonce)
		case "none":
			opts = opts[:0]
		}
		if op.Fams != nil {
			opts = append(opts, hrpc.Families(op.Fams))
		}
		if op.SkipBatch {
			opts = append(opts, hrpc.SkipBatch())
		}
		if op.Prio > 0 {
			opts = append(opts, hrpc.Priority(op.Prio))
		}
		if op.MaxVer > 0 {
			opts = append(opts, hrpc.MaxVersions(op.MaxVer))
		}
		g, err := hrpc.NewGet(ctx, table, op.Key, opts...)
		if err != nil {
			return nil, err
		}
		if op.Exists {
			g.ExistsOnly()
		}
		return g, nil
	case "put", "app", "cas":
		vals := map[string]map[string][]byte{}
		for f, qs := range op.Vals {
			vals[f] = map[string][]byte{}
			for q, v := range qs {
				vals[f][q] = nonceVal(op.Nonce, v)
			}
		}
		opts := mutOpts(op)
		if op.Kind == "app" {
			return hrpc.NewApp(ctx, table, op.Key, vals, opts...)
		}
		return hrpc.NewPut(ctx, table, op.Key, vals, opts...)
	case "inc":
		vals := map[string]map[string][]byte{}
		for f, qs := range op.Vals {
			vals[f] = map[string][]byte{}
			for q := range qs {
				vals[f][q] = binary.BigEndian.AppendUint64(nil, op.Nonce)
			}
		}
		return hrpc.NewInc(ctx, table, op.Key, vals, mutOpts(op)...)
	case "del":
		var vals map[string]map[string][]byte
		if op.Vals != nil {
			vals = map[string]map[string][]byte{}
			for f, qs := range op.Vals {
				if qs == nil {
					vals[f] = nil
					continue
				}
				vals[f] = map[string][]byte{}
				for q := range qs {
					vals[f][q] = nil
				}
			}
		}
		opts := mutOpts(op)
		if !op.NoTS {
			opts = append(opts, hrpc.TimestampUint64(op.Nonce))
		}
		if op.DelOne {
			opts = append(opts, hrpc.DeleteOneVersion())
		}
		return hrpc.NewDel(ctx, table, op.Key, vals, opts...)
	case "scanreq":
		// a raw scan call (used as the non-batchable entry of invalid batches)
		return hrpc.NewScanRange(ctx, table, op.Key, nil)
	}
	return nil, fmt.Errorf("BuildCall: unsupported kind %q", op.Kind)
}

func mutOpts(op *Op) []func(hrpc.Call) error {
	var opts []func(hrpc.Call) error
	if op.SkipBatch {
		opts = append(opts, hrpc.SkipBatch())
	}
	if op.TS != 0 && op.Kind != "del" {
		opts = append(opts, hrpc.TimestampUint64(op.TS))
	}
	if op.Dur != 0 {
		opts = append(opts, hrpc.Durability(hrpc.DurabilityType(op.Dur)))
	}
	if op.TTLMS != 0 {
		opts = append(opts, hrpc.TTL(ms(op.TTLMS)))
	}
	return opts
}

func (w *World) opCtx(op *Op) (context.Context, context.CancelFunc) {
	switch op.Ctx.Kind {
	case "timeout":
		return context.WithTimeout(w.root, ms(op.Ctx.MS))
	default:
		ctx, cancel := context.WithCancel(w.root)
		if op.Ctx.Pre {
			cancel()
		}
		return ctx, cancel
	}
}

func fillSlot(s *Slot, msg any, err error) {
	s.Err = err
	if err != nil {
		s.ErrStr = err.Error()
		s.ErrClass = classify(err)
	}
	switch m := msg.(type) {
	case *hrpc.Result:
		if m != nil {
			s.HasMsg = true
			s.Cells = toRCells(m.Cells)
			s.Exists = m.Exists
		}
	case *pb.GetResponse:
		if m != nil {
			s.HasMsg = true
			if m.Result != nil {
				s.Cells = pbToRCells(m.Result.Cell)
				s.Exists = m.Result.Exists
			}
		}
	case *pb.MutateResponse:
		if m != nil {
			s.HasMsg = true
			s.Processed = m.Processed
			if m.Result != nil {
				s.Cells = pbToRCells(m.Result.Cell)
			}
		}
	}
}

// runOp executes one operation through the real public API.
func (w *World) runOp(rec *OpRec) {
	op := rec.Op
	e := w.Env
	rec.ctx, rec.cancel = w.opCtx(op)
	rec.Started = true
	rec.Invoke, rec.InvokeT = e.StepNow(), e.Now()
	rec.Slot.Nonce, rec.Slot.Kind = op.Nonce, op.Kind
	defer func() {
		rec.Return, rec.ReturnT = e.StepNow(), e.Now()
		rec.Slot.CtxEnded = rec.ctx.Err() != nil
		rec.Done = true
	}()
	switch op.Kind {
	case "sleep":
		time.Sleep(ms(op.MS))
		simrt.Woke("task:sleep")
	case "get":
		call, err := BuildCall(rec.ctx, op)
		if err != nil {
			panic(err)
		}
		res, err := w.Client.Get(call.(*hrpc.Get))
		fillSlot(&rec.Slot, res, err)
	case "put", "del", "app":
		call, err := BuildCall(rec.ctx, op)
		if err != nil {
			panic(err)
		}
		var res *hrpc.Result
		switch op.Kind {
		case "put":
			res, err = w.Client.Put(call.(*hrpc.Mutate))
		case "del":
			res, err = w.Client.Delete(call.(*hrpc.Mutate))
		case "app":
			res, err = w.Client.Append(call.(*hrpc.Mutate))
		}
		fillSlot(&rec.Slot, res, err)
	case "inc":
		call, err := BuildCall(rec.ctx, op)
		if err != nil {
			panic(err)
		}
		v, err := w.Client.Increment(call.(*hrpc.Mutate))
		rec.IncVal = v
		fillSlot(&rec.Slot, nil, err)
		if err == nil {
			rec.Slot.HasMsg = true
		}
	case "cas":
		call, err := BuildCall(rec.ctx, op)
		if err != nil {
			panic(err)
		}
		ok, err := w.Client.CheckAndPut(call.(*hrpc.Mutate), op.CasFam, op.CasQual, op.CasVal)
		fillSlot(&rec.Slot, nil, err)
		if err == nil {
			rec.Slot.HasMsg = true
			rec.Slot.Processed = &ok
		}
	case "batch":
		w.runBatch(rec)
	case "scan":
		w.runScan(rec)
	case "cache":
		err := w.Client.CacheRegions(tableBytes(op.Table))
		fillSlot(&rec.Slot, nil, err)
	case "close":
		w.closeClient()
	case "status":
		st, err := w.Admin.ClusterStatus()
		fillSlot(&rec.Slot, nil, err)
		if err == nil && st != nil {
			rec.Slot.HasMsg = true
			rec.Slot.Cells = []RCell{{Value: []byte(st.GetMaster().GetHostName())}}
		}
	case "tables":
		ln, err := hrpc.NewListTableNames(rec.ctx)
		if err != nil {
			panic(err)
		}
		_, err = w.Admin.ListTableNames(ln)
		fillSlot(&rec.Slot, nil, err)
		rec.Slot.HasMsg = err == nil
	case "create", "delete", "enable", "disable", "balancer", "moveregion", "snapshot", "delsnapshot", "listsnapshots", "restore":
		w.runAdmin(rec)
	default:
		panic("unknown op kind " + op.Kind)
	}
}

// runAdmin runs one of the administrative calls that are more than a single
// request: procedures polled until they finish, snapshots polled by a ticker.
func (w *World) runAdmin(rec *OpRec) {
	op := rec.Op
	var err error
	switch op.Kind {
	case "create":
		err = w.Admin.CreateTable(hrpc.NewCreateTable(rec.ctx, tableBytes(op.Table), map[string]map[string]string{"cf": nil}))
	case "delete":
		err = w.Admin.DeleteTable(hrpc.NewDeleteTable(rec.ctx, tableBytes(op.Table)))
	case "enable":
		err = w.Admin.EnableTable(hrpc.NewEnableTable(rec.ctx, tableBytes(op.Table)))
	case "disable":
		err = w.Admin.DisableTable(hrpc.NewDisableTable(rec.ctx, tableBytes(op.Table)))
	case "balancer":
		sb, e2 := hrpc.NewSetBalancer(rec.ctx, op.Exists)
		if e2 != nil {
			panic(e2)
		}
		_, err = w.Admin.SetBalancer(sb)
	case "moveregion":
		mr, e2 := hrpc.NewMoveRegion(rec.ctx, op.Key)
		if e2 != nil {
			panic(e2)
		}
		err = w.Admin.MoveRegion(mr)
	case "snapshot", "delsnapshot", "restore":
		sn, e2 := hrpc.NewSnapshot(rec.ctx, string(op.Key), op.Table)
		if e2 != nil {
			panic(e2)
		}
		switch op.Kind {
		case "snapshot":
			err = w.Admin.CreateSnapshot(sn)
		case "delsnapshot":
			err = w.Admin.DeleteSnapshot(sn)
		case "restore":
			err = w.Admin.RestoreSnapshot(sn)
		}
	case "listsnapshots":
		var l []*pb.SnapshotDescription
		l, err = w.Admin.ListSnapshots(hrpc.NewListSnapshots(rec.ctx))
		for _, d := range l {
			rec.Slot.Cells = append(rec.Slot.Cells, RCell{Value: []byte(d.GetName())})
		}
	}
	cells := rec.Slot.Cells
	fillSlot(&rec.Slot, nil, err)
	rec.Slot.Cells = cells
	rec.Slot.HasMsg = err == nil
}

func (w *World) closeClient() {
	if w.ClosedStep == 0 {
		w.ClosedStep, w.ClosedT = w.Env.StepNow(), w.Env.Now()
	}
	if w.Client != nil {
		w.Client.Close()
	}
	if w.Admin != nil {
		gohbase.VerifCloseAdmin(w.Admin)
	}
	if !w.CloseReturned {
		w.CloseReturnStep, w.CloseReturnT = w.Env.StepNow(), w.Env.Now()
	}
	w.CloseReturned = true
}

func (w *World) runBatch(rec *OpRec) {
	op := rec.Op
	n := len(op.Batch)
	calls := make([]hrpc.Call, n)
	rec.Slots = make([]Slot, n)
	rec.slotCancel = make([]context.CancelFunc, n)
	rec.slotCtx = make([]context.Context, n)
	for i := range op.Batch {
		sub := &op.Batch[i]
		rec.Slots[i].Nonce, rec.Slots[i].Kind = sub.Nonce, sub.Kind
		var cctx context.Context
		switch sub.Ctx.Kind {
		case "own", "timeout":
			// a context of its own, distinct from the batch context
			if sub.Ctx.Kind == "timeout" {
				cctx, rec.slotCancel[i] = context.WithTimeout(w.root, ms(sub.Ctx.MS))
			} else {
				cctx, rec.slotCancel[i] = context.WithCancel(w.root)
			}
			if sub.Ctx.Pre {
				rec.slotCancel[i]()
			}
		default:
			cctx = rec.ctx
		}
		rec.slotCtx[i] = cctx
		c, err := BuildCall(cctx, sub)
		if err != nil {
			panic(err)
		}
		calls[i] = c
	}
	for _, d := range op.Dup {
		calls[d[1]] = calls[d[0]]
	}
	res, ok := w.Client.SendBatch(rec.ctx, calls)
	rec.AllOK = ok
	if len(res) != n {
		rec.Slot.Err = fmt.Errorf("SendBatch returned %d results for %d calls", len(res), n)
		rec.Slot.ErrStr = rec.Slot.Err.Error()
		rec.Slot.ErrClass = "other"
	}
	for i := range res {
		if i < n {
			fillSlot(&rec.Slots[i], res[i].Msg, res[i].Error)
			rec.Slots[i].CtxEnded = rec.slotCtx[i].Err() != nil
		}
	}
}

func (w *World) runScan(rec *OpRec) {
	op := rec.Op
	e := w.Env
	opts := []func(hrpc.Call) error{hrpc.TimeRangeUint64(op.Nonce, hrpc.MaxTimestamp)}
	if op.TR == "to" {
		opts[0] = hrpc.TimeRangeUint64(0, op.Nonce)
	}
	if op.Fams != nil {
		opts = append(opts, hrpc.Families(op.Fams))
	}
	if op.Reversed {
		opts = append(opts, hrpc.Reversed())
	}
	if op.NumRows > 0 {
		opts = append(opts, hrpc.NumberOfRows(op.NumRows))
	}
	if op.Partial {
		opts = append(opts, hrpc.AllowPartialResults())
	}
	if op.RenewMS > 0 {
		opts = append(opts, hrpc.RenewInterval(ms(op.RenewMS)))
	}
	if op.ScanClose {
		opts = append(opts, hrpc.CloseScanner())
	}
	if op.Filter {
		// one option value shared by every scan of the run, as an application
		// that keeps its scan options in a variable does
		opts = append(opts, w.filterOpt)
	}
	if op.Prio > 0 {
		opts = append(opts, hrpc.Priority(op.Prio))
	}
	if op.SharedOpts {
		opts = w.sharedScanOpts
	}
	s, err := hrpc.NewScanRange(rec.ctx, tableBytes(op.Table), op.Start, op.Stop, opts...)
	if err != nil {
		panic(err)
	}
	sc := w.Client.Scan(s)
	closeNow := func() {
		before := e.StepNow()
		sc.Close()
		rec.ScanCloseSteps = append(rec.ScanCloseSteps, before, e.StepNow())
	}
	if op.CloseAt < 0 {
		closeNow()
	}
	eofs := 0
	for i := 0; i < 400; i++ {
		if op.CloseAt > 0 && i == op.CloseAt {
			closeNow()
		}
		if op.Abandon > 0 && i == op.Abandon {
			// the application forgets about the scanner
			return
		}
		r, err := sc.Next()
		it := ScanItem{Err: err, Step: e.StepNow()}
		if err != nil {
			it.ErrStr = err.Error()
		}
		if r == nil {
			it.NilRes = true
		} else {
			it.Cells = toRCells(r.Cells)
			it.Partial = r.Partial
		}
		rec.Scan = append(rec.Scan, it)
		if err == io.EOF {
			eofs++
			if eofs >= 2 {
				break
			}
		}
		if op.PauseMS > 0 && err == nil {
			// the caller's own pause between fetches ends with its context
			simrt.Yield("task:scanpause")
			select {
			case <-time.After(ms(op.PauseMS)):
			case <-rec.ctx.Done():
			}
			simrt.Woke("task:scanpause")
		}
		simrt.Yield("task:scan-next")
	}
	// Close twice is harmless
	closeNow()
	closeNow()
}

func (w *World) runTask(t int) {
	for i := range w.Recs[t] {
		simrt.Yield("task:op")
		if w.Env.frozen.Load() {
			return // teardown: the freed tasks run in parallel, nothing is judged any more
		}
		w.runOp(w.Recs[t][i])
	}
	w.tasksDone.Add(1)
}

// AllDone reports whether every task has finished its operations.
func (w *World) AllDone() bool { return int(w.tasksDone.Load()) == len(w.Recs) }

// cancelOp implements the "cancel" fault.
func (w *World) cancelOp(task, idx, slot int) {
	if task >= len(w.Recs) || idx >= len(w.Recs[task]) {
		return
	}
	w.Env.Probe("cancel-fired")
	if idx < 0 {
		// the operation the task is executing right now
		idx = -1
		for i, r := range w.Recs[task] {
			if r.Started && !r.Done {
				idx = i
			}
		}
		if idx < 0 {
			return
		}
	}
	rec := w.Recs[task][idx]
	if !rec.Started {
		// not started yet: make it start cancelled
		if slot > 0 && slot-1 < len(rec.Op.Batch) {
			rec.Op.Batch[slot-1].Ctx.Pre = true
			if rec.Op.Batch[slot-1].Ctx.Kind == "" {
				rec.Op.Batch[slot-1].Ctx.Kind = "own"
			}
		} else {
			rec.Op.Ctx.Pre = true
		}
		return
	}
	if rec.CancelStep == 0 {
		rec.CancelStep, rec.CancelT = w.Env.StepNow(), w.Env.Now()
		rec.CancelSlot = slot
		if t := w.TaskG; task < len(t) && t[task] != nil {
			rec.CancelSite = t[task].Site
		}
	}
	if slot > 0 {
		if slot-1 < len(rec.slotCancel) && rec.slotCancel[slot-1] != nil {
			rec.slotCancel[slot-1]()
		}
		return
	}
	rec.cancel()
}

var _ = hb.TypePut

// pageAll is the page size of the shared scan filter: large enough to let every row pass.
const pageAll = int64(1) << 40

// sharedNonce tags the scans that are created from the shared options slice.
const sharedNonce = 960001

// newSharedScanOpts returns an options slice with spare capacity.
func newSharedScanOpts() []func(hrpc.Call) error {
	o := make([]func(hrpc.Call) error, 0, 4)
	return append(o, hrpc.TimeRangeUint64(sharedNonce, hrpc.MaxTimestamp), hrpc.NumberOfRows(2))
}

func newFilterOpt() func(hrpc.Call) error { return hrpc.Filters(filter.NewPageFilter(pageAll)) }
