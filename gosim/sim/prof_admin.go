package sim

import (
	"fmt"
	"strings"
	"time"

	"gosim/hb"
	"gosim/rng"
)

// C04 (administrative calls): the active master moves or restarts.

func genC04Admin(seed uint64, r *rng.Rand) *Plan {
	g := &Gen{R: r}
	p := &Plan{Profile: "c04admin", Seed: seed}
	p.Layout = Layout{Servers: g.R.Range(2, 4), Tables: []TableSpec{{Name: "t"}}}
	p.Layout.Master = g.R.Intn(p.Layout.Servers)
	p.Layout.Meta = g.R.Intn(p.Layout.Servers)
	p.Client = ClientKnobs{Admin: true, ReadTimeoutMS: []int{50, 1000, 30000}[g.R.Intn(3)], LookupMS: []int{0, 1000}[g.R.Intn(2)]}
	p.Sched = g.SwarmSched()
	p.Sched.MaxFake = 30 * time.Minute
	nt := g.R.Range(1, 3)
	for t := 0; t < nt; t++ {
		var ops []Op
		n := g.R.Range(2, 6)
		for i := 0; i < n; i++ {
			ops = append(ops, Op{Kind: []string{"status", "tables", "status"}[g.R.Intn(3)]})
			if g.R.Chance(0.3) {
				ops = append(ops, Op{Kind: "sleep", MS: g.R.Range(1, 2000)})
			}
		}
		p.Tasks = append(p.Tasks, Task{Ops: ops})
	}
	nf := g.R.Range(1, 4)
	for i := 0; i < nf; i++ {
		at := g.R.Range(0, 8)
		switch g.R.Intn(6) {
		case 0:
			p.Faults = append(p.Faults, &Fault{On: "exec", N: at, Act: "mastermove", To: g.R.Intn(p.Layout.Servers)})
		case 1:
			p.Faults = append(p.Faults, &Fault{On: "exec", N: at, Act: "crash", Server: p.Layout.Master})
			p.Faults = append(p.Faults, &Fault{On: "exec", N: at + g.R.Range(1, 4), Act: "restart", Server: p.Layout.Master})
		case 2:
			p.Faults = append(p.Faults, &Fault{On: "exec", N: at, Act: "rule", Rule: &hb.Rule{Class: []string{hb.ExPleaseHold, hb.ExNotRunning, hb.ExMasterStop, hb.ExCallQueue}[g.R.Intn(4)],
				Count: g.R.Range(1, 3), Server: -1, Kind: "Any"}})
		case 3:
			p.Faults = append(p.Faults, &Fault{On: "exec", N: at, Act: "reset", Server: g.R.Intn(p.Layout.Servers)})
		case 4:
			p.Faults = append(p.Faults, &Fault{On: "exec", N: at, Act: "zkfail", Count: g.R.Range(1, 3)})
		case 5:
			p.Faults = append(p.Faults, &Fault{On: "exec", N: at, Act: "silent", Server: g.R.Intn(p.Layout.Servers)})
		}
	}
	return p
}

func init() {
	register(&Profile{Name: "c04admin", Prop: "C04", Generate: genC04Admin, After: stabilise,
		Check: func(w *World, reason string) []Violation {
			var vs []Violation
			if w.Env.StopErr == nil {
				vs = append(vs, w.AllReturned("C04", "admin-liveness-after-stabilisation")...)
			}
			seqs := map[string]bool{}
			for _, e := range w.Env.C.Execs {
				if e.Kind == "Master" && e.Err == "" {
					seqs[fmt.Sprintf("master-exec-%d", e.Seq)] = true
				}
			}
			for _, t := range w.Recs {
				for _, r := range t {
					if !r.Done || (r.Op.Kind != "status" && r.Op.Kind != "tables") {
						continue
					}
					if r.Slot.Err != nil {
						vs = append(vs, w.viol("C04", "admin-error-surfaced", "task %d op %d (%s) returned %q although the master is reachable after stabilisation", r.Task, r.Idx, r.Op.Kind, firstLine(r.Slot.ErrStr)))
						continue
					}
					if r.Op.Kind == "status" {
						got := ""
						if len(r.Slot.Cells) > 0 {
							got = string(r.Slot.Cells[0].Value)
						}
						if !seqs[got] && strings.HasPrefix(got, "master-exec-") || got == "" {
							vs = append(vs, w.viol("C04", "admin-attribution", "ClusterStatus returned %q, which no successful execution on the active master produced", got))
						}
					}
				}
			}
			return vs
		},
		Nontrivial: func(w *World) bool { return w.Env.Stats.FaultsFired > 0 },
	})
}
