package sim

import (
	"fmt"
	"strings"
	"time"

	"gosim/hb"
	"gosim/rng"
)

// C04 (administrative calls): the active master moves or restarts.

func genC04Admin(seed uint64, r *rng.Rand) *Plan {
	g := &Gen{R: r}
	p := &Plan{Profile: "c04admin", Seed: seed}
	p.Layout = Layout{Servers: g.R.Range(2, 4), Tables: []TableSpec{{Name: "t"}}}
	p.Layout.Master = g.R.Intn(p.Layout.Servers)
	p.Layout.Meta = g.R.Intn(p.Layout.Servers)
	p.Client = ClientKnobs{Admin: true, ReadTimeoutMS: []int{50, 1000, 30000}[g.R.Intn(3)], LookupMS: []int{0, 1000}[g.R.Intn(2)]}
	p.Sched = g.SwarmSched()
	p.Sched.MaxFake = 30 * time.Minute
	nt := g.R.Range(1, 3)
	for t := 0; t < nt; t++ {
		var ops []Op
		n := g.R.Range(2, 6)
		for i := 0; i < n; i++ {
			ops = append(ops, adminOp(g))
			if g.R.Chance(0.3) {
				ops = append(ops, Op{Kind: "sleep", MS: g.R.Range(1, 2000)})
			}
		}
		p.Tasks = append(p.Tasks, Task{Ops: ops})
	}
	nf := g.R.Range(1, 4)
	for i := 0; i < nf; i++ {
		at := g.R.Range(0, 8)
		switch g.R.Intn(8) {
		case 6:
			// an application exception: returned to the caller, not retried
			p.Faults = append(p.Faults, &Fault{On: "exec", N: at, Act: "rule", Rule: &hb.Rule{Class: hb.AppClasses[g.R.Intn(len(hb.AppClasses)-1)], Msg: "scripted",
				Count: g.R.Range(1, 2), Server: -1, Kind: "Master"}})
		case 7:
			// every third procedure finishes with an exception
			p.Faults = append(p.Faults, &Fault{On: "exec", N: 0, Act: "procfail", Rule: &hb.Rule{Class: "org.apache.hadoop.hbase.TableExistsException"}})
		case 0:
			p.Faults = append(p.Faults, &Fault{On: "exec", N: at, Act: "mastermove", To: g.R.Intn(p.Layout.Servers)})
		case 1:
			p.Faults = append(p.Faults, &Fault{On: "exec", N: at, Act: "crash", Server: p.Layout.Master})
			p.Faults = append(p.Faults, &Fault{On: "exec", N: at + g.R.Range(1, 4), Act: "restart", Server: p.Layout.Master})
		case 2:
			p.Faults = append(p.Faults, &Fault{On: "exec", N: at, Act: "rule", Rule: &hb.Rule{Class: []string{hb.ExPleaseHold, hb.ExNotRunning, hb.ExMasterStop, hb.ExCallQueue}[g.R.Intn(4)],
				Count: g.R.Range(1, 3), Server: -1, Kind: "Any"}})
		case 3:
			p.Faults = append(p.Faults, &Fault{On: "exec", N: at, Act: "reset", Server: g.R.Intn(p.Layout.Servers)})
		case 4:
			p.Faults = append(p.Faults, &Fault{On: "exec", N: at, Act: "zkfail", Count: g.R.Range(1, 3)})
		case 5:
			p.Faults = append(p.Faults, &Fault{On: "exec", N: at, Act: "silent", Server: g.R.Intn(p.Layout.Servers)})
		}
	}
	return p
}

// adminOp draws one administrative call.
func adminOp(g *Gen) Op {
	tables := []string{"t", "ns:adm", "x"}
	switch k := []string{"status", "tables", "status", "create", "delete", "enable", "disable", "balancer", "moveregion", "snapshot", "delsnapshot", "listsnapshots", "restore"}[g.R.Intn(13)]; k {
	case "create", "delete", "enable", "disable":
		return Op{Kind: k, Table: tables[g.R.Intn(len(tables))]}
	case "balancer":
		return Op{Kind: k, Exists: g.R.Chance(0.5)}
	case "moveregion":
		return Op{Kind: k, Key: []byte(fmt.Sprintf("%032x", g.R.Intn(1<<30)))}
	case "snapshot", "delsnapshot", "restore":
		return Op{Kind: k, Table: tables[g.R.Intn(len(tables))], Key: []byte(fmt.Sprintf("snap%d", g.R.Intn(3)))}
	default:
		return Op{Kind: k}
	}
}

func init() {
	register(&Profile{Name: "c04admin", Prop: "C04", Generate: genC04Admin, After: stabilise,
		Check: func(w *World, reason string) []Violation {
			var vs []Violation
			if w.Env.StopErr == nil {
				vs = append(vs, w.AllReturned("C04", "admin-liveness-after-stabilisation")...)
			}
			seqs := map[string]bool{}
			for _, e := range w.Env.C.Execs {
				if e.Kind == "Master" && e.Err == "" {
					seqs[fmt.Sprintf("master-exec-%d", e.Seq)] = true
				}
			}
			// exceptions the master sent that are not in a retryable class, and
			// procedures that finished with an exception
			appSent := map[string]int{}
			for _, e := range w.Env.C.Execs {
				if e.Kind == "Master" && e.Err != "" && !retryClass(e.Err) {
					appSent[e.Err]++
				}
			}
			procFailed := 0
			for _, pr := range w.Env.C.Procs {
				if pr.Fail != "" && pr.Seen > pr.Polls {
					procFailed++
				}
			}
			appGot, procGot := map[string]int{}, 0
			for _, t := range w.Recs {
				for _, r := range t {
					if !r.Done || r.Op.Kind == "sleep" {
						continue
					}
					if r.Slot.Err != nil {
						msg := firstLine(r.Slot.ErrStr)
						matched := false
						for cls := range appSent {
							if strings.Contains(msg, cls) {
								appGot[cls]++
								matched = true
								break
							}
						}
						if !matched && w.Env.C.ProcFail != "" && strings.HasPrefix(msg, "procedure exception: "+w.Env.C.ProcFail+": procedure ") {
							procGot++
							matched = true
						}
						if !matched {
							vs = append(vs, w.viol("C04", "admin-error-surfaced", "task %d op %d (%s) returned %q although the master is reachable after stabilisation and sent no such exception", r.Task, r.Idx, r.Op.Kind, msg))
						}
						continue
					}
					if r.Op.Kind == "status" {
						got := ""
						if len(r.Slot.Cells) > 0 {
							got = string(r.Slot.Cells[0].Value)
						}
						if !seqs[got] && strings.HasPrefix(got, "master-exec-") || got == "" {
							vs = append(vs, w.viol("C04", "admin-attribution", "ClusterStatus returned %q, which no successful execution on the active master produced", got))
						}
					}
				}
			}
			calm := true // no fault that can lose a response on its way
			for _, f := range w.Plan.Faults {
				if f.Act != "rule" && f.Act != "procfail" && f.Act != "zkfail" {
					calm = false
				}
				if f.Act == "rule" {
					for _, fc := range hb.FatalClasses {
						if f.Rule.Class == fc {
							calm = false // the connection dies with whatever else it carried
						}
					}
				}
			}
			if w.Env.StopErr == nil && len(vs) == 0 && w.AllDone() && calm {
				// an exception outside the retryable classes ends its call: as many
				// callers got it as the master sent it
				for cls, n := range appSent {
					if appGot[cls] != n {
						vs = append(vs, w.viol("C04", "admin-app-error-retried", "the master answered %d request(s) with %s, %d call(s) returned it: the others were retried or lost", n, cls, appGot[cls]))
					}
				}
				if procGot != procFailed {
					vs = append(vs, w.viol("C04", "admin-attribution", "%d call(s) reported a failed procedure, %d procedure(s) were reported as finished with an exception by the master", procGot, procFailed))
				}
			}
			return vs
		},
		Nontrivial: func(w *World) bool { return w.Env.Stats.FaultsFired > 0 },
	})
}
