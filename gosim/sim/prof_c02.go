package sim

import (
	"fmt"

	"gosim/hb"
	"gosim/rng"
)

// batchOf draws a SendBatch operation of 1..max calls on one table.
func (g *Gen) batchOf(ts *TableSpec, max int, kinds []string) Op {
	b := Op{Kind: "batch", Table: ts.Name}
	n := g.R.Range(1, max)
	for j := 0; j < n; j++ {
		o := g.SingleOp(ts.Name, g.KeyNear(ts.Splits, 3), kinds)
		o.SkipBatch = false
		b.Batch = append(b.Batch, o)
	}
	return b
}

// C02 — each caller receives the response to its own request.
func genC02(seed uint64, r *rng.Rand) *Plan {
	g := &Gen{R: r}
	p := &Plan{Profile: "c02", Seed: seed}
	p.Layout = g.Layout(LayoutOpts{MaxServers: 3, MaxTables: 1, MaxRegions: 6, KeyLen: 3, OneTable: true})
	ts := &p.Layout.Tables[0]
	g.PreloadRows(ts, g.R.Range(0, 12), 3)
	p.Client = g.SwarmClient()
	p.Client.ReadTimeoutMS = 30000
	p.Sched = g.SwarmSched()
	p.Sched.Reorder = []float64{0.3, 0.8, 1}[g.R.Intn(3)]
	p.Permute = true
	p.Scan.InPB = []float64{0, 0.3}[g.R.Intn(2)]
	nt := g.R.Range(2, 8)
	kinds := []string{"get", "get", "put", "inc", "app", "del", "cas"}
	// keys: a small pool so that callers collide on rows, plus preloaded rows
	var pool [][]byte
	for i := 0; i < 5; i++ {
		pool = append(pool, g.KeyNear(ts.Splits, 3))
	}
	for _, rw := range ts.Rows {
		pool = append(pool, rw.Key)
	}
	for t := 0; t < nt; t++ {
		var ops []Op
		n := g.R.Range(1, 5)
		for i := 0; i < n; i++ {
			if g.R.Chance(0.3) {
				b := g.batchOf(ts, 6, []string{"get", "get", "put", "inc", "app", "del"})
				for j := range b.Batch {
					b.Batch[j].Key = pool[g.R.Intn(len(pool))]
				}
				ops = append(ops, b)
				continue
			}
			o := g.SingleOp(ts.Name, pool[g.R.Intn(len(pool))], kinds)
			if g.R.Chance(0.04) {
				// a call that cannot be marshalled (nil row): it fails before anything
				// is written; whatever state that failure leaves behind (pooled
				// headers, multis) must not mix up later callers
				o = Op{Kind: "get", Table: ts.Name, Key: nil, Nonce: g.Nonce(), SkipBatch: g.R.Chance(0.6)}
			}
			if g.R.Chance(0.12) && len(o.Key) > 0 {
				// the caller gives up while its call sits in a batch that has not been
				// flushed: the multi is sent without it (and, if it was alone, without
				// its region); the other callers' results must still be their own
				o.Ctx = CtxSpec{Kind: "timeout", MS: g.R.Range(1, 25)}
			}
			ops = append(ops, o)
		}
		p.Tasks = append(p.Tasks, Task{Ops: ops})
	}
	// per-action and per-region application exceptions (they surface to the caller)
	if g.R.Chance(0.5) {
		nr := g.R.Range(1, 3)
		for i := 0; i < nr; i++ {
			lv := []string{"action", "action", "region"}[g.R.Intn(3)]
			p.Rules = append(p.Rules, &hb.Rule{Class: hb.AppClasses[g.R.Intn(len(hb.AppClasses)-1)], Msg: "injected",
				Count: g.R.Range(1, 3), Server: -1, Level: lv, Nonce: uint64(g.R.Range(1, 30))})
		}
	}
	// third configuration: one regionserver, a long flush interval, callers that
	// give up before the flush, and whole-region exceptions: the multi leaves out
	// the calls (and regions) of the callers that are gone, and a region's
	// exception must still reach exactly the callers of that region
	if g.R.Chance(0.08) {
		p.Layout.Servers, p.Layout.Meta, p.Layout.Master = 1, 0, 0
		ts.First = 0
		p.Client.QueueSize, p.Client.FlushMS = 100, 20
		for t := range p.Tasks {
			for i := range p.Tasks[t].Ops {
				o := &p.Tasks[t].Ops[i]
				if o.Kind != "batch" && len(o.Key) > 0 {
					o.SkipBatch = false
					if g.R.Chance(0.4) {
						o.Ctx = CtxSpec{Kind: "timeout", MS: g.R.Range(1, 15)}
					} else {
						o.Ctx = CtxSpec{}
					}
				}
			}
		}
		p.Rules = append(p.Rules, &hb.Rule{Class: hb.AppClasses[g.R.Intn(len(hb.AppClasses)-1)], Msg: "injected", Count: g.R.Range(1, 3), Server: -1, Level: "region"})
		return p
	}
	// fourth configuration: slow regionservers - the callers that give up do so
	// while their request is outstanding, and its answer (often an exception)
	// arrives for a call that nobody waits for any more
	if g.R.Chance(0.12) {
		for sv := 0; sv < p.Layout.Servers; sv++ {
			p.Faults = append(p.Faults, &Fault{On: "step", N: 1, Act: "slow", Server: sv, Dur: g.R.Range(5, 60)})
		}
		for t := range p.Tasks {
			for i := range p.Tasks[t].Ops {
				o := &p.Tasks[t].Ops[i]
				if o.Kind == "batch" && g.R.Chance(0.5) {
					// a batch whose own deadline is far away holds calls that give up on
					// their own while the slow server works: SendBatch still takes
					// whatever arrives for them, and that must be what the server sent
					o.Ctx = CtxSpec{Kind: "timeout", MS: g.R.Range(150, 400)}
					for j := range o.Batch {
						if g.R.Chance(0.5) {
							o.Batch[j].Ctx = CtxSpec{Kind: "timeout", MS: g.R.Range(1, 60)}
						}
					}
					continue
				}
				if o.Kind != "batch" && len(o.Key) > 0 && g.R.Chance(0.35) {
					o.Ctx = CtxSpec{Kind: "timeout", MS: g.R.Range(1, 40)}
					if g.R.Chance(0.5) {
						// the call travels in a multi and is answered normally: when its
						// answer is decoded at the instant its context ends, the caller may
						// still take it - and then it must be the answer the server gave
						o.SkipBatch = false
						continue
					}
					o.SkipBatch = true
					p.Rules = append(p.Rules, &hb.Rule{Class: hb.AppClasses[g.R.Intn(len(hb.AppClasses)-1)], Msg: "injected", Count: 1, Server: -1, Level: "call", Nonce: o.Nonce})
				}
			}
		}
		return p
	}
	// second configuration: connection loss
	if g.R.Chance(0.25) {
		p.Faults = append(p.Faults, &Fault{On: "exec", N: g.R.Range(2, 25), Act: "reset", Server: g.R.Intn(p.Layout.Servers)})
	}
	return p
}

func init() {
	register(&Profile{Name: "c02", Prop: "C02", Generate: genC02,
		After: func(w *World, reason string) {},
		Check: func(w *World, reason string) []Violation {
			vs := w.AttributionCheck("C02")
			if len(w.Plan.Faults) == 0 && w.Env.StopErr == nil {
				vs = append(vs, w.AllReturned("C02", "completion")...)
				vs = append(vs, w.appErrorsDelivered("C02")...)
			}
			return vs
		},
		Nontrivial: func(w *World) bool {
			// at least one multi request carried calls of two callers or two regions, or responses were reordered
			return w.Env.Stats.Probes["exec-out-of-order"] > 0 || w.multiMixed()
		},
		Setup: func(w *World) {
			w.Env.Invariant = func() error {
				if w.Env.Step%32 == 0 {
					return w.CacheInvariant()
				}
				return nil
			}
		},
	})
}

// multiMixed reports whether some multi request held more than one action.
func (w *World) multiMixed() bool {
	cnt := map[uint64]int{}
	for _, e := range w.Env.C.Execs {
		if e.Multi != 0 {
			cnt[e.Multi]++
			if cnt[e.Multi] > 1 {
				return true
			}
		}
	}
	return false
}

// appErrorsDelivered: in a run in which no response can get lost, an exception
// outside the retryable classes that a server sent for a call (for the call, for
// its whole region action, or for the whole request) is what its caller gets -
// unless the caller's context had ended.
func (w *World) appErrorsDelivered(prop string) []Violation {
	var vs []Violation
	byNonce := execsByNonce(w.Env.C)
	isApp := func(cls string) bool {
		for _, c := range hb.AppClasses[:len(hb.AppClasses)-1] {
			if c == cls {
				return true
			}
		}
		return false
	}
	check := func(r *OpRec, op *Op, s *Slot, what string) {
		if op.Ctx.Kind != "" || op.Ctx.Pre || op.Key == nil {
			return
		}
		for _, ex := range byNonce[op.Nonce] {
			if isApp(ex.Err) && s.ErrClass != "app" {
				vs = append(vs, w.viol(prop, "app-error-lost", "%s (nonce %d): execution %d answered it with %s (level %s), the caller got %q", what, op.Nonce, ex.Seq, ex.Err, ex.ErrLevel, firstLine(s.ErrStr)))
				return
			}
		}
	}
	for _, t := range w.Recs {
		for _, r := range t {
			if !r.Done {
				continue
			}
			switch r.Op.Kind {
			case "get", "put", "del", "app", "inc", "cas":
				check(r, r.Op, &r.Slot, fmt.Sprintf("task %d op %d (%s)", r.Task, r.Idx, r.Op.Kind))
			case "batch":
				if batchInvalid(r.Op) != "" || r.Op.Ctx.Kind != "" {
					continue
				}
				for i := range r.Slots {
					check(r, &r.Op.Batch[i], &r.Slots[i], fmt.Sprintf("task %d op %d batch slot %d", r.Task, r.Idx, i))
				}
			}
		}
	}
	return vs
}
