package sim

import (
	"bytes"
	"fmt"
	"io"
	"sort"
	"strings"
	"time"

	"gosim/hb"
	"gosim/rng"
)

// C06 — a scan returns exactly the rows in range, in order, whole, once.
// C14 — scanners terminate cleanly and release server-side scanners.

func (g *Gen) scanOp(ts *TableSpec) Op {
	o := Op{Kind: "scan", Table: ts.Name, Nonce: g.Nonce()}
	var keys [][]byte
	for _, r := range ts.Rows {
		keys = append(keys, r.Key)
	}
	pick := func() []byte {
		switch g.R.Intn(5) {
		case 0:
			return []byte{}
		case 1:
			if len(keys) > 0 {
				return keys[g.R.Intn(len(keys))]
			}
			return g.Key(3)
		default:
			return g.KeyNear(ts.Splits, 3)
		}
	}
	a, b := pick(), pick()
	if len(b) > 0 && bytes.Compare(a, b) > 0 {
		a, b = b, a
	}
	o.Start, o.Stop = a, b
	if g.R.Chance(0.4) {
		o.Reversed = true
		// reversed scans take an explicit start row (as the API documents)
		o.Start, o.Stop = b, a
		if len(o.Start) == 0 {
			o.Start = []byte{0xff, 0xfe}
		}
	}
	o.NumRows = []uint32{0, 1, 2, 3}[g.R.Intn(4)]
	o.Partial = g.R.Chance(0.35)
	o.Filter = g.R.Chance(0.15)
	if g.R.Chance(0.3) {
		o.Fams = map[string][]string{"cf": nil}
	}
	return o
}

func genScan(profile string, ending bool) func(seed uint64, r *rng.Rand) *Plan {
	return func(seed uint64, r *rng.Rand) *Plan {
		g := &Gen{R: r}
		p := &Plan{Profile: profile, Seed: seed}
		p.Layout = g.Layout(LayoutOpts{MaxServers: 3, MaxTables: 1, MaxRegions: 6, KeyLen: 3, OneTable: true})
		ts := &p.Layout.Tables[0]
		g.PreloadRows(ts, g.R.Range(0, 40), 3)
		p.Client = g.SwarmClient()
		p.Client.ReadTimeoutMS = 30000
		p.Sched = g.SwarmSched()
		p.Scan = hb.ScanKnobs{Chunky: g.R.Chance(0.85), Partial: []float64{0, 0.3, 0.7}[g.R.Intn(3)], Heartbeat: []float64{0, 0.15}[g.R.Intn(2)], InPB: []float64{0, 0.3}[g.R.Intn(2)]}
		p.Scan.ZeroID = rng.New(rng.Derive(seed, 606)).Chance(0.08)
		nt := g.R.Range(1, 3)
		for t := 0; t < nt; t++ {
			var ops []Op
			n := g.R.Range(1, 3)
			for i := 0; i < n; i++ {
				o := g.scanOp(ts)
				if !ending && g.R.Chance(0.25) {
					// a slow consumer with scanner renewal: the renewer runs between
					// two fetches and must not move the region scanner
					o.RenewMS = g.R.Range(10, 60)
					o.PauseMS = g.R.Range(0, 120)
				}
				if ending {
					switch g.R.Intn(6) {
					case 0:
						o.CloseAt = g.R.Range(-1, 6)
						if o.CloseAt == 0 {
							o.CloseAt = 1
						}
					case 1:
						o.RenewMS = g.R.Range(10, 60)
						o.PauseMS = g.R.Range(0, 120)
					case 2:
						o.ScanClose = g.R.Chance(0.3)
					case 3:
						// the scan's context has a deadline that passes between two
						// Next calls (the caller is slow) or while a request is outstanding
						o.Ctx = CtxSpec{Kind: "timeout", MS: g.R.Range(1, 200)}
						o.PauseMS = g.R.Range(1, 80)
					}
				}
				ops = append(ops, o)
			}
			p.Tasks = append(p.Tasks, Task{Ops: ops})
		}
		if !ending && g.R.Chance(0.1) {
			// parallel range scans created from one options slice: only the
			// range (and the direction) of a scan is its own
			for t := range p.Tasks {
				for i := range p.Tasks[t].Ops {
					o := &p.Tasks[t].Ops[i]
					*o = Op{Kind: "scan", Table: o.Table, Nonce: sharedNonce, Start: o.Start, Stop: o.Stop, SharedOpts: true, NumRows: 2}
				}
			}
			for len(p.Tasks) < 2 {
				p.Tasks = append(p.Tasks, Task{Ops: []Op{p.Tasks[0].Ops[0]}})
			}
		}
		if ending && g.R.Chance(0.6) {
			nf := g.R.Range(1, 2)
			for i := 0; i < nf; i++ {
				t := g.R.Intn(len(p.Tasks))
				o := g.R.Intn(len(p.Tasks[t].Ops))
				switch g.R.Intn(7) {
				case 6: // a slow regionserver: renewals and fetches overlap
					p.Faults = append(p.Faults, &Fault{On: "step", N: 1, Act: "slow", Server: g.R.Intn(p.Layout.Servers), Dur: []int{1, 10, 40, 100}[g.R.Intn(4)]})
				case 0, 1: // error on the r-th scan request
					cls := [][]string{hb.AppClasses, hb.RetryableClasses, hb.NotServingClasses, {hb.ExUnknownScan}}[g.R.Intn(4)]
					p.Faults = append(p.Faults, &Fault{On: "exec", N: g.R.Range(1, 20), Act: "rule",
						Rule: &hb.Rule{Class: cls[g.R.Intn(len(cls))], Msg: "scripted", Count: g.R.Range(1, 2), Server: -1, Kind: "Scan", Level: "call",
							Nonce: p.Tasks[t].Ops[o].Nonce}})
				case 2:
					p.Faults = append(p.Faults, &Fault{On: "exec", N: g.R.Range(1, 20), Act: "reset", Server: g.R.Intn(p.Layout.Servers)})
				case 3, 4:
					on, n := "step", g.R.Range(20, 500)
					if g.R.Chance(0.5) {
						on, n = "exec", g.R.Range(1, 15)
					}
					p.Faults = append(p.Faults, &Fault{On: on, N: n, Act: "cancel", Task: t, Op: o})
				case 5:
					p.Faults = append(p.Faults, &Fault{On: "exec", N: g.R.Range(1, 20), Act: "move", Table: ts.Name, Region: g.R.Intn(6), To: g.R.Intn(p.Layout.Servers)})
				}
			}
		}
		return p
	}
}

type modelRow struct {
	key   []byte
	cells []hb.Cell
}

// expectedScan returns the model's rows for a scan, in scan order.
func expectedScan(c *hb.Cluster, op *Op) []modelRow {
	keys := c.RowsInRange(op.Table, nil, nil)
	var out []modelRow
	for _, k := range keys {
		if !op.Reversed {
			if bytes.Compare(k, op.Start) < 0 || (len(op.Stop) > 0 && bytes.Compare(k, op.Stop) >= 0) {
				continue
			}
		} else {
			if (len(op.Start) > 0 && bytes.Compare(k, op.Start) > 0) || (len(op.Stop) > 0 && bytes.Compare(k, op.Stop) <= 0) {
				continue
			}
		}
		cells := c.RowCells(op.Table, k)
		if op.Fams != nil {
			var f []hb.Cell
			for _, cl := range cells {
				if _, ok := op.Fams[string(cl.Fam)]; ok {
					f = append(f, cl)
				}
			}
			cells = f
		}
		if len(cells) > 0 {
			out = append(out, modelRow{k, cells})
		}
	}
	if op.Reversed {
		sort.SliceStable(out, func(i, j int) bool { return bytes.Compare(out[i].key, out[j].key) > 0 })
	}
	return out
}

func cellsEqualModel(got []RCell, want []hb.Cell) bool {
	if len(got) != len(want) {
		return false
	}
	for i := range got {
		if !bytes.Equal(got[i].Row, want[i].Row) || !bytes.Equal(got[i].Fam, want[i].Fam) || !bytes.Equal(got[i].Qual, want[i].Qual) || !bytes.Equal(got[i].Value, want[i].Value) {
			return false
		}
	}
	return true
}

// scanRows assembles the rows a scan returned before its first error/EOF.
// With partial results allowed, consecutive fragments of one row are joined.
func scanRows(r *OpRec) (rows [][]RCell, emptyFrag bool, endIdx int) {
	endIdx = len(r.Scan)
	for i, it := range r.Scan {
		if it.Err != nil {
			endIdx = i
			break
		}
		if len(it.Cells) == 0 {
			emptyFrag = true
			continue
		}
		if r.Op.Partial && len(rows) > 0 && bytes.Equal(rows[len(rows)-1][0].Row, it.Cells[0].Row) {
			rows[len(rows)-1] = append(rows[len(rows)-1], it.Cells...)
			continue
		}
		rows = append(rows, it.Cells)
	}
	return
}

func (w *World) checkC06() []Violation {
	var vs []Violation
	for _, t := range w.Recs {
		for _, r := range t {
			if r.Op.Kind != "scan" || !r.Done {
				continue
			}
			where := fmt.Sprintf("task %d op %d scan [%q,%q) reversed=%v rows=%d partial=%v", r.Task, r.Idx, r.Op.Start, r.Op.Stop, r.Op.Reversed, r.Op.NumRows, r.Op.Partial)
			want := expectedScan(w.Env.C, r.Op)
			got, emptyFrag, end := scanRows(r)
			if end >= len(r.Scan) || r.Scan[end].Err != io.EOF {
				es := "none"
				if end < len(r.Scan) {
					es = r.Scan[end].ErrStr
				}
				vs = append(vs, w.viol("C06", "scan-error", "%s: ended with %s instead of io.EOF in a fault-free run", where, es))
				continue
			}
			if emptyFrag {
				vs = append(vs, w.viol("C06", "empty-result", "%s: Next returned a result without cells", where))
			}
			for i := 0; i < len(got) || i < len(want); i++ {
				switch {
				case i >= len(got):
					vs = append(vs, w.viol("C06", "row-missing", "%s: row %q (position %d of %d) was not returned", where, want[i].key, i, len(want)))
				case i >= len(want):
					vs = append(vs, w.viol("C06", "row-extra", "%s: unexpected row %q at position %d (model has %d rows in range)", where, got[i][0].Row, i, len(want)))
				case !bytes.Equal(got[i][0].Row, want[i].key):
					vs = append(vs, w.viol("C06", "row-order", "%s: position %d holds row %q, model says %q", where, i, got[i][0].Row, want[i].key))
				case !cellsEqualModel(got[i], want[i].cells):
					vs = append(vs, w.viol("C06", "row-cells", "%s: row %q returned with %d cells, model has %d (or contents differ)", where, want[i].key, len(got[i]), len(want[i].cells)))
				default:
					continue
				}
				break
			}
			// io.EOF is sticky
			for _, it := range r.Scan[end:] {
				if it.Err != io.EOF {
					vs = append(vs, w.viol("C06", "eof-not-sticky", "%s: Next returned %v after io.EOF", where, it.ErrStr))
					break
				}
			}
		}
	}
	return vs
}

func (w *World) checkC14() []Violation {
	var vs []Violation
	c := w.Env.C
	for _, t := range w.Recs {
		for _, r := range t {
			if r.Op.Kind != "scan" || !r.Done {
				continue
			}
			where := fmt.Sprintf("task %d op %d scan nonce=%d [%q,%q) reversed=%v closeAt=%d renew=%d", r.Task, r.Idx, r.Op.Nonce, r.Op.Start, r.Op.Stop, r.Op.Reversed, r.Op.CloseAt, r.Op.RenewMS)
			// client side: at most one non-EOF error, followed only by EOF
			nerr := 0
			for i, it := range r.Scan {
				if it.Err != nil && it.Err != io.EOF {
					nerr++
					if nerr > 1 {
						vs = append(vs, w.viol("C14", "error-repeated", "%s: Next reported an error again (%s) at call %d after having reported one", where, firstLine(it.ErrStr), i))
						break
					}
					continue
				}
				if nerr > 0 && it.Err != io.EOF {
					vs = append(vs, w.viol("C14", "result-after-error", "%s: Next returned a result at call %d after an error", where, i))
					break
				}
			}
			// A scan that reported no error and was not closed by its caller says
			// "these are all the rows": in a run without faults (contexts that end
			// are part of the plan, not faults) it must have returned all of them.
			// In particular a context that ends while rows are still buffered has
			// to be reported, not answered with a clean end-of-scan.
			if nerr == 0 && len(w.Plan.Faults) == 0 && r.Op.CloseAt == 0 && r.Op.Abandon == 0 {
				got, _, end := scanRows(r)
				if end < len(r.Scan) && r.Scan[end].Err == io.EOF {
					if want := expectedScan(c, r.Op); len(got) < len(want) {
						vs = append(vs, w.viol("C14", "ended-silently", "%s: the scan ended with io.EOF and no error after %d of %d rows (context of the scan: %+v)", where, len(got), len(want), r.Op.Ctx))
					}
				}
			}
			// (Rows returned before a failure are not judged here: after a lost
			// response the retried "next" request continues behind the lost
			// chunk - gohbase sends no next_call_seq - which is outside C14.)
			// Close never blocks: it takes no scheduler step of another goroutine
			// (recorded as step before/after; a blocking Close would never return)
			// server side: nothing opened by this scan is still open, nothing opened after it ended
			for _, id := range c.OpenScanners() {
				sc := c.Scanners[id]
				if sc.Nonce != r.Op.Nonce {
					continue
				}
				// the client can only close a scanner whose id it learned: the
				// response of the open request must have been consumed
				learned, closeSent := false, false
				for _, x := range c.Execs {
					if x.ScannerID != id {
						continue
					}
					if x.Kind == "ScanOpen" && x.Err == "" { // (an open that was refused allocated no scanner; its id field is 0, a legal id)
						// The scanner learned the id if the caller got rows of that
						// very response, or if no context ended - neither cancelled nor
						// past its deadline - while the scan was in progress (a response
						// that arrives together with or after the end of the context is
						// dropped by the reader or by the caller's select: with a slow
						// server the open request is answered after the caller has gone).
						expired := r.Op.Ctx.Kind == "timeout" && r.ReturnT >= r.InvokeT+ms(r.Op.Ctx.MS)
						if cs := w.consumedStep(x); cs != 0 && r.CancelStep == 0 && !expired {
							learned = true
						}
						for _, it := range r.Scan {
							for _, cl := range it.Cells {
								if cl.TS == x.Seq {
									learned = true
								}
							}
						}
					}
					carried := x.ReqScan != nil && x.ReqScan.ScannerId != nil // (0 is a legal id)
					if (x.Kind == "ScanNext" || x.Kind == "ScanRenew") && carried {
						learned = true // the client used the id
					}
					if x.Kind == "ScanClose" && x.Server == sc.Server && carried {
						closeSent = true // a close for it reached the server that holds it
					}
				}
				if learned && !closeSent {
					vs = append(vs, w.viol("C14", "scanner-leaked", "%s: region scanner %d on %s (server rs%d) is still open after the scan ended and the network drained, and no close request for it ever reached the server", where, id, sc.Region.Name, sc.Server))
				}
			}
			for _, x := range c.Execs {
				if x.Nonce == r.Op.Nonce && x.Kind == "ScanOpen" && x.ArrStep > r.Return {
					vs = append(vs, w.viol("C14", "opened-after-end", "%s: a new region scanner was opened at step %d, after the scan ended at step %d", where, x.ArrStep, r.Return))
				}
			}
		}
	}
	for _, id := range c.OpenScanners() {
		sc := c.Scanners[id]
		if sc.Nonce == 0 && sc.Table != "hbase:meta" {
			vs = append(vs, w.viol("C14", "anonymous-scanner-leaked", "a region scanner (%d on %s) opened by a request that is not a scan of the workload (e.g. a renewal sent without a scanner id) is still open", id, sc.Region.Name))
		}
	}
	for _, g := range liveLabelled("renewLoop") {
		vs = append(vs, w.viol("C14", "renewer-left", "renew goroutine still alive at %s after all scans ended", g))
	}
	return vs
}

func liveLabelled(sub string) []string {
	var out []string
	for _, g := range simrtLive() {
		if strings.Contains(g[0], sub) {
			out = append(out, g[1])
		}
	}
	return out
}

func scanAfter(w *World, reason string) {
	// let close requests and renewers drain
	w.Env.Heal()
	w.Env.Knobs.MaxSteps = w.Env.Step + 100000
	w.Env.Knobs.MaxFake = w.Env.Now() + 40*time.Minute
	if !w.AllDone() {
		w.Env.Knobs.MaxIdle = 10 * time.Minute
		w.Env.Loop(w.AllDone)
	}
	w.Env.Drain(3 * time.Minute)
}

func init() {
	cacheMonitor := func(w *World) {
		// the C08 monitor: scans hold the cached region descriptors in their hands
		w.Env.Invariant = func() error {
			if w.Env.Step%32 == 0 {
				return w.CacheInvariant()
			}
			return nil
		}
	}
	register(&Profile{Name: "c06", Prop: "C06", Generate: genScan("c06", false), After: scanAfter, Setup: cacheMonitor,
		Check: func(w *World, reason string) []Violation {
			vs := w.checkC06()
			if w.Env.StopErr == nil {
				vs = append(vs, w.AllReturned("C06", "completion")...)
			}
			return vs
		},
		Nontrivial: func(w *World) bool {
			n := 0
			for _, x := range w.Env.C.Execs {
				if strings.HasPrefix(x.Kind, "Scan") && x.Nonce != 0 {
					n++
				}
			}
			return n >= 2
		}})
	register(&Profile{Name: "c14", Prop: "C14", Generate: genScan("c14", true), After: scanAfter, Setup: cacheMonitor,
		Check: func(w *World, reason string) []Violation {
			vs := w.checkC14()
			if w.Env.StopErr == nil {
				vs = append(vs, w.AllReturned("C14", "completion")...)
			}
			return vs
		},
		Nontrivial: func(w *World) bool { return len(w.Env.C.Execs) > 3 }})
}
