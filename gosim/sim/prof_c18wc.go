package sim

import (
	"time"

	"gosim/rng"
)

// C18 (whole client): the read timeout that detects a silent regionserver is
// the configured one on every connection the client opens - also on the
// connection that was opened for hbase:meta and is shared by the user regions
// of that server, and whatever the lookup timeout is.
func genC18WC(seed uint64, r *rng.Rand) *Plan {
	g := &Gen{R: r}
	p := &Plan{Profile: "c18wc", Seed: seed}
	p.Layout = g.Layout(LayoutOpts{MaxServers: 2, MaxTables: 1, MaxRegions: 3, KeyLen: 2, OneTable: true})
	ts := &p.Layout.Tables[0]
	if g.R.Chance(0.7) {
		ts.First = p.Layout.Meta // user regions share the connection opened for hbase:meta
	}
	p.Client = g.SwarmClient()
	p.Client.ReadTimeoutMS = []int{50, 1000, 5000}[g.R.Intn(3)]
	p.Client.LookupMS = []int{0, 20000, 60000}[g.R.Intn(3)]
	p.Sched = g.SwarmSched()
	p.Sched.MaxFake = 10 * time.Minute
	nt := g.R.Range(1, 3)
	for t := 0; t < nt; t++ {
		var ops []Op
		for i, n := 0, g.R.Range(2, 6); i < n; i++ {
			ops = append(ops, g.SingleOp(ts.Name, g.KeyNear(ts.Splits, 2), []string{"get", "put", "get", "inc"}))
			if g.R.Chance(0.2) {
				ops = append(ops, Op{Kind: "sleep", MS: g.R.Range(1, 200)})
			}
		}
		p.Tasks = append(p.Tasks, Task{Ops: ops})
	}
	srv := p.Layout.Meta
	if g.R.Chance(0.3) {
		srv = g.R.Intn(p.Layout.Servers)
	}
	p.Faults = append(p.Faults, &Fault{On: "exec", N: g.R.Range(2, 12), Act: "silent", Server: srv})
	return p
}

func init() {
	register(&Profile{Name: "c18wc", Prop: "C18", Generate: genC18WC,
		After: func(w *World, reason string) {
			// let every armed read deadline run out
			e := w.Env
			t := ms(w.Plan.Client.ReadTimeoutMS)
			e.Knobs.MaxIdle = 2 * t
			e.Knobs.MaxFake = e.Now() + 20*t
			e.Drain(3 * t)
		},
		Check: func(w *World, reason string) []Violation {
			var vs []Violation
			e := w.Env
			t := ms(w.Plan.Client.ReadTimeoutMS)
			for _, cn := range e.Conns {
				if !cn.Srv.Silent || cn.ReqWritten <= cn.respProduced() {
					continue
				}
				if e.Now() < cn.LastWriteAt+t {
					continue // written less than a read timeout ago
				}
				e.Probe("c18wc-silent-with-outstanding")
				switch {
				case !cn.IsClosed():
					vs = append(vs, w.viol("C18", "silence-undetected", "connection #%d to %s: %d request(s) unanswered by the silent server (last write at %v) but still open at %v, read timeout %v (lookup timeout option %d ms)",
						cn.N, cn.Addr, cn.ReqWritten-cn.respProduced(), cn.LastWriteAt, e.Now(), t, w.Plan.Client.LookupMS))
				case cn.ClosedAt > cn.LastWriteAt+t:
					vs = append(vs, w.viol("C18", "detected-late", "connection #%d to %s: unanswered requests were failed over at %v, later than the read timeout %v after the last write at %v (lookup timeout option %d ms)",
						cn.N, cn.Addr, cn.ClosedAt, t, cn.LastWriteAt, w.Plan.Client.LookupMS))
				}
			}
			return vs
		},
		Nontrivial: func(w *World) bool { return w.Env.Stats.Probes["c18wc-silent-with-outstanding"] > 0 },
	})
}
