package sim

import (
	"bytes"
	"fmt"
	"sort"

	"gosim/rng"
)

// Gen carries the state of plan generation.
type Gen struct {
	R     *rng.Rand
	nonce uint64
}

func (g *Gen) Nonce() uint64 { g.nonce++; return g.nonce }

// boundary alphabet: bytes that stress the region-name ordering.
var keyAlphabet = []byte{0x00, '+', ',', '-', '.', '0', ':', 'a', 'b', 'm', 0xff}

// Key draws a row key of 0..maxLen bytes over the boundary-heavy alphabet.
func (g *Gen) Key(maxLen int) []byte {
	n := g.R.Intn(maxLen + 1)
	k := make([]byte, n) // never nil: a nil row is not a row key (required field unset)
	for i := range k {
		k[i] = keyAlphabet[g.R.Intn(len(keyAlphabet))]
	}
	return k
}

// Splits draws n distinct, sorted, non-empty split keys.
func (g *Gen) Splits(n, maxLen int) [][]byte {
	seen := map[string]bool{}
	var out [][]byte
	for tries := 0; len(out) < n && tries < 200; tries++ {
		k := g.Key(maxLen)
		if len(k) == 0 || seen[string(k)] {
			continue
		}
		// some boundaries are prefixes / successors of others
		if len(out) > 0 && g.R.Chance(0.3) {
			b := out[g.R.Intn(len(out))]
			switch g.R.Intn(3) {
			case 0:
				k = append(append([]byte(nil), b...), 0x00)
			case 1:
				k = append(append([]byte(nil), b...), keyAlphabet[g.R.Intn(len(keyAlphabet))])
			case 2:
				if len(b) > 1 {
					k = append([]byte(nil), b[:len(b)-1]...)
				}
			}
			if len(k) == 0 || seen[string(k)] {
				continue
			}
		}
		seen[string(k)] = true
		out = append(out, k)
	}
	sort.Slice(out, func(i, j int) bool { return bytes.Compare(out[i], out[j]) < 0 })
	return out
}

// KeyNear draws a key equal or adjacent to one of the boundaries, or random.
func (g *Gen) KeyNear(bounds [][]byte, maxLen int) []byte {
	if len(bounds) == 0 || g.R.Chance(0.35) {
		return g.Key(maxLen)
	}
	b := bounds[g.R.Intn(len(bounds))]
	switch g.R.Intn(7) {
	case 0:
		return append([]byte{}, b...)
	case 1:
		return append(append([]byte(nil), b...), 0x00)
	case 2: // predecessor-ish
		if len(b) == 0 {
			return []byte{}
		}
		k := append([]byte(nil), b...)
		if k[len(k)-1] == 0 {
			return k[:len(k)-1]
		}
		k[len(k)-1]--
		return append(k, 0xff)
	case 3:
		if len(b) > 0 {
			return append([]byte{}, b[:len(b)-1]...)
		}
		return []byte{}
	case 4:
		return append(append([]byte(nil), b...), keyAlphabet[g.R.Intn(len(keyAlphabet))])
	case 5:
		return []byte{} // empty key
	default:
		k := append([]byte(nil), b...)
		if len(k) > 0 {
			k[len(k)-1]++
		}
		return k
	}
}

// table name pools: names that are prefixes of one another and differ in
// bytes that sort around ','.
var tableNames = [][]string{
	{"t"},
	{"t", "tt"},
	{"t", "t-x", "t.x"},
	{"t", "t_", "t0"},
	{"ns:t", "ns:tt"},
	{"t", "ns:t"},
	{"a.b", "a", "a-b"},
	{"tab", "ta", "tabl"},
	// a namespaced table and tables of the default namespace with the same
	// shape, the separator replaced by a legal name byte that sorts after ':'
	{"ns:t", "ns_t"},
	{"a:b", "a_b", "aab"},
}

// LayoutOpts bounds a generated layout.
type LayoutOpts struct {
	MaxServers, MaxTables, MaxRegions, KeyLen int
	OneTable                                  bool
}

// Layout draws a cluster layout.
func (g *Gen) Layout(o LayoutOpts) Layout {
	l := Layout{Servers: g.R.Range(1, o.MaxServers)}
	l.Meta = g.R.Intn(l.Servers)
	l.Master = g.R.Intn(l.Servers)
	names := tableNames[g.R.Intn(len(tableNames))]
	if o.OneTable {
		names = names[:1]
	}
	if len(names) > o.MaxTables {
		names = names[:o.MaxTables]
	}
	// Bound: a regionserver never hosts more than 7 regions (meta included)
	// at once, so the pointer-keyed region sets of the connection cache stay
	// small maps with insertion-ordered (hook-rotated) iteration (DESIGN §10).
	budget := 6
	for _, n := range names {
		ts := TableSpec{Name: n, First: g.R.Intn(l.Servers)}
		maxR := o.MaxRegions
		if maxR > budget {
			maxR = budget
		}
		if maxR < 1 {
			break
		}
		ts.Splits = g.Splits(g.R.Range(0, maxR-1), o.KeyLen)
		budget -= len(ts.Splits) + 1
		// region ids of different digit counts
		for i := 0; i <= len(ts.Splits); i++ {
			switch g.R.Intn(4) {
			case 0:
				ts.IDs = append(ts.IDs, uint64(1+g.R.Intn(9)))
			case 1:
				ts.IDs = append(ts.IDs, uint64(100+g.R.Intn(900)))
			default:
				ts.IDs = append(ts.IDs, 0)
			}
		}
		l.Tables = append(l.Tables, ts)
	}
	return l
}

// Bounds returns all region boundaries of a table spec.
func (t *TableSpec) Bounds() [][]byte { return t.Splits }

func (g *Gen) Vals() map[string]map[string][]byte {
	fams := []string{"cf", "d"}
	quals := []string{"q", "", "x1", "yy"}
	out := map[string]map[string][]byte{}
	nf := g.R.Range(1, 2)
	for i := 0; i < nf; i++ {
		f := fams[g.R.Intn(len(fams))]
		if out[f] == nil {
			out[f] = map[string][]byte{}
		}
		nq := g.R.Range(1, 3)
		for j := 0; j < nq; j++ {
			q := quals[g.R.Intn(len(quals))]
			out[f][q] = []byte(fmt.Sprintf("v%d", g.R.Intn(1000)))
		}
	}
	return out
}

// SingleOp draws a single-row operation on table/key.
func (g *Gen) SingleOp(table string, key []byte, kinds []string) Op {
	k := kinds[g.R.Intn(len(kinds))]
	op := Op{Kind: k, Table: table, Key: key, Nonce: g.Nonce()}
	switch k {
	case "get":
		if g.R.Chance(0.3) {
			op.Fams = map[string][]string{"cf": nil}
		}
		if g.R.Chance(0.2) {
			op.SkipBatch = true
		}
	case "put", "app":
		op.Vals = g.Vals()
		if g.R.Chance(0.15) {
			op.SkipBatch = true
		}
	case "inc":
		op.Vals = map[string]map[string][]byte{"cf": {"ctr": nil}}
	case "del":
		switch g.R.Intn(4) {
		case 0: // whole row
		case 1:
			op.Vals = map[string]map[string][]byte{"cf": nil}
		case 2:
			op.Vals = map[string]map[string][]byte{"cf": {"q": nil}}
		case 3:
			op.Vals = map[string]map[string][]byte{"cf": {"q": nil}}
			op.DelOne = true
		}
	case "cas":
		op.Vals = map[string]map[string][]byte{"cf": {"q": []byte("c")}}
		op.CasFam, op.CasQual = "cf", "q"
		if g.R.Chance(0.5) {
			op.CasVal = nil
		} else {
			op.CasVal = []byte("nomatch")
		}
	}
	return op
}

// PreloadRows fills a table spec with n rows over its key space.
func (g *Gen) PreloadRows(ts *TableSpec, n, keyLen int) {
	seen := map[string]bool{}
	for i := 0; i < n; i++ {
		k := g.KeyNear(ts.Splits, keyLen)
		if len(k) == 0 || seen[string(k)] || bytes.Contains(k, bytes.Repeat([]byte{0xff}, 8)) {
			continue
		}
		seen[string(k)] = true
		cells := map[string][]byte{}
		nc := g.R.Range(1, 5)
		for j := 0; j < nc; j++ {
			cells[fmt.Sprintf("cf:q%d", j)] = []byte(fmt.Sprintf("r%d-%d", i, j))
		}
		ts.Rows = append(ts.Rows, RowSpec{Key: k, Cells: cells})
	}
}

// SwarmClient draws client knobs.
func (g *Gen) SwarmClient() ClientKnobs {
	k := ClientKnobs{}
	k.QueueSize = []int{1, 2, 3, 10, 100}[g.R.Intn(5)]
	k.FlushMS = []int{-1, 1, 20}[g.R.Intn(3)]
	k.ReadTimeoutMS = []int{50, 1000, 30000}[g.R.Intn(3)]
	k.Snappy = g.R.Chance(0.3)
	return k
}

// SwarmSched draws scheduler knobs.
func (g *Gen) SwarmSched() SchedKnobs {
	k := DefaultKnobs()
	k.Sticky = []float64{0, 0.3, 0.7, 0.9}[g.R.Intn(4)]
	k.WRun = []float64{2, 6, 12}[g.R.Intn(3)]
	k.WExec = []float64{1, 2, 6}[g.R.Intn(3)]
	k.WDeliver = []float64{1, 2, 6}[g.R.Intn(3)]
	k.Reorder = []float64{0, 0.3, 0.8}[g.R.Intn(3)]
	k.Chop = []float64{0, 0.2, 0.6}[g.R.Intn(3)]
	return k
}
