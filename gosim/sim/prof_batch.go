package sim

import (
	"fmt"
	"sort"
	"strings"
	"time"

	"gosim/hb"
	"gosim/rng"
)

// C07 — batch results are positional and self-consistent.
// C12 — a batch executes each call once, in per-region order, or not at all.

func genBatch(profile string) func(seed uint64, r *rng.Rand) *Plan {
	return func(seed uint64, r *rng.Rand) *Plan {
		g := &Gen{R: r}
		p := &Plan{Profile: profile, Seed: seed}
		p.Layout = g.Layout(LayoutOpts{MaxServers: 3, MaxTables: 2, MaxRegions: 4, KeyLen: 3})
		p.Client = g.SwarmClient()
		p.Client.ReadTimeoutMS = []int{1000, 30000}[g.R.Intn(2)]
		p.Sched = g.SwarmSched()
		p.Sched.MaxFake = 30 * time.Minute
		p.Permute = g.R.Chance(0.5)
		nt := g.R.Range(1, 3)
		kinds := []string{"get", "put", "inc", "app", "del", "inc", "app"}
		for t := 0; t < nt; t++ {
			var ops []Op
			n := g.R.Range(1, 3)
			for i := 0; i < n; i++ {
				ts := &p.Layout.Tables[g.R.Intn(len(p.Layout.Tables))]
				b := g.batchOf(ts, 12, kinds)
				// contexts: shared with the batch, or per-call contexts of their own
				if g.R.Chance(0.25) {
					for j := range b.Batch {
						if g.R.Chance(0.5) {
							b.Batch[j].Ctx.Kind = "own"
						}
					}
				}
				// invalid batches (C12): mixed tables, a repeated call object, a non-batchable call
				if g.R.Chance(0.18) {
					j := g.R.Intn(len(b.Batch))
					switch g.R.Intn(4) {
					case 0:
						if len(p.Layout.Tables) > 1 {
							other := p.Layout.Tables[0].Name
							if other == ts.Name {
								other = p.Layout.Tables[1].Name
							}
							b.Batch[j].Table = other
						} else {
							b.Batch[j].Table = ts.Name + "x"
						}
					case 1:
						if len(b.Batch) > 1 {
							k := g.R.Intn(len(b.Batch))
							if k != j {
								b.Dup = append(b.Dup, [2]int{k, j})
							}
						}
					case 2:
						b.Batch[j] = Op{Kind: "scanreq", Table: ts.Name, Key: g.KeyNear(ts.Splits, 3), Nonce: g.Nonce()}
					case 3:
						b.Batch[j].SkipBatch = true
					}
				}
				ops = append(ops, b)
			}
			p.Tasks = append(p.Tasks, Task{Ops: ops})
		}
		// per-call outcome scripts over retry rounds
		if g.R.Chance(0.7) {
			for t := range p.Tasks {
				for i := range p.Tasks[t].Ops {
					for j := range p.Tasks[t].Ops[i].Batch {
						if !g.R.Chance(0.35) {
							continue
						}
						rounds := g.R.Range(1, 3)
						for k := 0; k < rounds; k++ {
							rl := &hb.Rule{Nonce: p.Tasks[t].Ops[i].Batch[j].Nonce, Count: 1, Server: -1, Level: "action"}
							switch g.R.Intn(5) {
							case 0:
								rl.Class, rl.Msg = hb.AppClasses[g.R.Intn(len(hb.AppClasses))], "scripted application error"
							case 1, 2:
								rl.Class = hb.RetryableClasses[g.R.Intn(len(hb.RetryableClasses))]
							case 3:
								rl.Class = hb.NotServingClasses[g.R.Intn(len(hb.NotServingClasses))]
								if g.R.Chance(0.5) {
									rl.Level = "region"
								}
							case 4:
								rl.Class, rl.Level = hb.FatalClasses[g.R.Intn(len(hb.FatalClasses))], []string{"action", "call"}[g.R.Intn(2)]
							}
							p.Rules = append(p.Rules, rl)
							if rl.Class == hb.ExIOException || g.R.Chance(0.0) {
								break
							}
						}
					}
				}
			}
		}
		// re-location failing or stalling, connection deaths, cancellation
		if g.R.Chance(0.5) {
			nf := g.R.Range(1, 3)
			for i := 0; i < nf; i++ {
				ts := &p.Layout.Tables[g.R.Intn(len(p.Layout.Tables))]
				at := g.R.Range(1, 25)
				switch g.R.Intn(8) {
				case 7:
					// one server takes its time: the results of a batch come in at different times
					p.Faults = append(p.Faults, &Fault{On: "step", N: 1, Act: "slow", Server: g.R.Intn(p.Layout.Servers), Dur: []int{1, 10, 40, 400, 2000}[g.R.Intn(5)]})
				case 0:
					p.Faults = append(p.Faults, &Fault{On: "exec", N: at, Act: "drop", Table: ts.Name})
				case 1:
					p.Faults = append(p.Faults, &Fault{On: "exec", N: at, Act: "opening", Table: ts.Name, Region: g.R.Intn(4)})
					if g.R.Chance(0.6) {
						p.Faults = append(p.Faults, &Fault{On: "exec", N: at + g.R.Range(2, 12), Act: "openall"})
					}
				case 2:
					p.Faults = append(p.Faults, &Fault{On: "exec", N: at, Act: "reset", Server: g.R.Intn(p.Layout.Servers)})
				case 3:
					p.Faults = append(p.Faults, &Fault{On: "exec", N: at, Act: "move", Table: ts.Name, Region: g.R.Intn(4), To: g.R.Intn(p.Layout.Servers)})
				case 4:
					p.Faults = append(p.Faults, &Fault{On: "exec", N: at, Act: "split", Table: ts.Name, Region: g.R.Intn(4), Key: g.KeyNear(ts.Splits, 3), Server: g.R.Intn(3), To: g.R.Intn(3)})
				default:
					t := g.R.Intn(len(p.Tasks))
					o := g.R.Intn(len(p.Tasks[t].Ops))
					slot := 0
					if g.R.Chance(0.4) {
						slot = 1 + g.R.Intn(len(p.Tasks[t].Ops[o].Batch))
					}
					on, n := "step", g.R.Range(10, 600)
					if g.R.Chance(0.5) {
						on, n = "exec", at
					}
					p.Faults = append(p.Faults, &Fault{On: on, N: n, Act: "cancel", Task: t, Op: o, Slot: slot})
				}
			}
		}
		return p
	}
}

// batchInvalid reports why a batch must be rejected up front ("" = valid).
func batchInvalid(op *Op) string {
	for i := range op.Batch {
		if op.Batch[i].Table != op.Batch[0].Table {
			return "mixed tables"
		}
		if op.Batch[i].Kind == "scanreq" || op.Batch[i].SkipBatch {
			return "non-batchable call"
		}
	}
	if len(op.Dup) > 0 {
		return "repeated call"
	}
	return ""
}

// consumed reports whether the client's reader processed the response of an
// execution: it read the whole frame and afterwards asked the connection for
// more (the reader is sequential, so the frame had been dispatched by then).
func (w *World) consumed(x *hb.Exec) bool {
	if x.RespEnd == 0 {
		return false
	}
	for _, c := range w.Env.Conns {
		if c.N == x.Conn && c.ReadMark >= x.RespEnd {
			return true
		}
	}
	return false
}

// consumedStep returns the step at which the reader asked for more after
// having read the response of x (0 = never).
func (w *World) consumedStep(x *hb.Exec) uint64 {
	if x.RespEnd == 0 {
		return 0
	}
	for _, c := range w.Env.Conns {
		if c.N != x.Conn {
			continue
		}
		for _, m := range c.Marks {
			if int(m[0]) >= x.RespEnd {
				return m[1]
			}
		}
	}
	return 0
}

func (w *World) consumedSuccess(nonce uint64, byNonce map[uint64][]*hb.Exec) *hb.Exec {
	for _, x := range byNonce[nonce] {
		if x.Applied && x.Err == "" && w.consumed(x) {
			return x
		}
	}
	return nil
}

func (w *World) checkC07() []Violation {
	var vs []Violation
	byNonce, bySeq := execsByNonce(w.Env.C), execIndex(w.Env.C)
	dropped := map[string]bool{}
	for _, f := range w.Plan.Faults {
		if f.Act == "drop" {
			dropped[f.Table] = true
		}
	}
	exists := map[string]bool{}
	for _, t := range w.Plan.Layout.Tables {
		exists[t.Name] = true
	}
	for _, t := range w.Recs {
		for _, r := range t {
			if r.Op.Kind != "batch" || !r.Done {
				continue
			}
			if !exists[r.Op.Batch[0].Table] {
				dropped[r.Op.Batch[0].Table] = true
			}
			where := fmt.Sprintf("task %d op %d", r.Task, r.Idx)
			if r.Slot.Err != nil {
				vs = append(vs, w.viol("C07", "length", "%s: %s", where, r.Slot.ErrStr))
				continue
			}
			batchEnded := r.ctx.Err() != nil
			invalid := batchInvalid(r.Op)
			allNil := true
			for i := range r.Slots {
				s := &r.Slots[i]
				op := &r.Op.Batch[i]
				if s.Err != nil {
					allNil = false
				}
				if invalid != "" {
					continue
				}
				if s.HasMsg && s.Err != nil {
					vs = append(vs, w.viol("C07", "response-and-error", "%s slot %d (nonce %d) holds both a response and an error (%s): an error of another call was written into it", where, i, s.Nonce, firstLine(s.ErrStr)))
					continue
				}
				if msg := attributeSlotOp(s, op, w.Env.C, byNonce, bySeq); msg != "" {
					vs = append(vs, w.viol("C07", "slot-attribution", "%s slot %d: %s", where, i, msg))
				}
				if s.Err == nil {
					continue
				}
				switch s.ErrClass {
				case "app":
				case "ctx":
					if !batchEnded && !s.CtxEnded {
						vs = append(vs, w.viol("C07", "spurious-context-error", "%s slot %d (nonce %d): context error although neither the batch context nor the call's context ended", where, i, s.Nonce))
					}
				case "tablenotfound":
					if !dropped[op.Table] {
						vs = append(vs, w.viol("C07", "spurious-table-not-found", "%s slot %d: TableNotFound for table %q which always existed", where, i, op.Table))
					}
				case "closed", "notexecuted":
				case "retryable", "notserving", "server":
					// the last retryable error of the call itself, when the batch was abandoned
					if !batchEnded && !s.CtxEnded && !anyLookupFailure(r) {
						vs = append(vs, w.viol("C07", "retryable-left", "%s slot %d (nonce %d) ends with a retryable error (%s) although the batch was not abandoned", where, i, s.Nonce, firstLine(s.ErrStr)))
					}
				default:
					vs = append(vs, w.viol("C07", "unexpected-error", "%s slot %d (nonce %d): %s", where, i, s.Nonce, firstLine(s.ErrStr)))
				}
				// success is sticky: a success the client consumed stays in the slot
				if !batchEnded && !s.CtxEnded {
					if x := w.consumedSuccess(s.Nonce, byNonce); x != nil && x.Step < r.Return {
						vs = append(vs, w.viol("C07", "success-lost", "%s slot %d (nonce %d): the client read the successful response of execution %d, yet the slot ends with error %s", where, i, s.Nonce, x.Seq, firstLine(s.ErrStr)))
					}
				}
			}
			if r.AllOK != allNil {
				vs = append(vs, w.viol("C07", "ok-flag", "%s: ok=%v but all-errors-nil=%v", where, r.AllOK, allNil))
			}
		}
	}
	return vs
}

func anyLookupFailure(r *OpRec) bool {
	for i := range r.Slots {
		switch r.Slots[i].ErrClass {
		case "tablenotfound", "closed", "ctx", "cannotfind":
			return true
		}
	}
	return false
}

func retryClass(cls string) bool {
	for _, l := range [][]string{hb.RetryableClasses, hb.NotServingClasses, hb.FatalClasses} {
		for _, c := range l {
			if c == cls {
				return true
			}
		}
	}
	return cls == hb.ExIOException || cls == hb.ExWrongRegion && false
}

func (w *World) checkC12() []Violation {
	var vs []Violation
	c := w.Env.C
	byNonce := execsByNonce(c)
	type bpos struct{ batch, idx int }
	pos := map[uint64]bpos{}
	bid := 0
	for _, t := range w.Recs {
		for _, r := range t {
			if r.Op.Kind != "batch" {
				continue
			}
			bid++
			for i := range r.Op.Batch {
				pos[r.Op.Batch[i].Nonce] = bpos{bid, i}
			}
			if !r.Done {
				continue
			}
			where := fmt.Sprintf("task %d op %d", r.Task, r.Idx)
			if why := batchInvalid(r.Op); why != "" {
				// rejection: nothing sent, ok=false, offending slots carry errors
				for i := range r.Op.Batch {
					if n := len(byNonce[r.Op.Batch[i].Nonce]); n > 0 {
						vs = append(vs, w.viol("C12", "invalid-batch-sent", "%s is invalid (%s) but call %d (nonce %d) reached a server %d time(s)", where, why, i, r.Op.Batch[i].Nonce, n))
						break
					}
				}
				if r.AllOK {
					vs = append(vs, w.viol("C12", "invalid-batch-ok", "%s is invalid (%s) but SendBatch reported ok", where, why))
				}
				nerr := 0
				for i := range r.Slots {
					if r.Slots[i].Err != nil {
						nerr++
					}
				}
				if nerr == 0 {
					vs = append(vs, w.viol("C12", "invalid-batch-no-error", "%s is invalid (%s) but no result slot carries an error", where, why))
				}
				continue
			}
			// at-most-once after a consumed success; nothing sent after the call returned
			for i := range r.Op.Batch {
				n := r.Op.Batch[i].Nonce
				ex := byNonce[n]
				abandoned := r.ctx.Err() != nil || r.slotCtx[i].Err() != nil
				for k, x := range ex {
					if x.ArrStep > r.Return && !abandoned {
						vs = append(vs, w.viol("C12", "sent-after-return", "%s call %d (nonce %d): a request was written at step %d, after SendBatch returned at step %d", where, i, n, x.ArrStep, r.Return))
					}
					if k == len(ex)-1 {
						break
					}
					if x.Err != "" {
						if !retryClass(x.Err) && x.Err != hb.ExWrongRegion && w.consumed(x) {
							vs = append(vs, w.viol("C12", "retried-after-fatal", "%s call %d (nonce %d) was sent again after the non-retryable answer %s", where, i, n, x.Err))
						}
						continue
					}
					if x.Applied {
						if w.consumed(x) && !abandoned {
							vs = append(vs, w.viol("C12", "executed-twice", "%s call %d (nonce %d, %s) was executed again (execution %d) after the client had read the successful response of execution %d", where, i, n, r.Op.Batch[i].Kind, ex[k+1].Seq, x.Seq))
						}
					}
				}
				if len(w.Plan.Faults) == 0 && len(w.Plan.Rules) == 0 && len(ex) != 1 && r.Slots[i].Err == nil {
					vs = append(vs, w.viol("C12", "fault-free-executions", "%s call %d (nonce %d) was executed %d times in a fault-free run", where, i, n, len(ex)))
				}
			}
		}
	}
	// one queue operation per regionserver: in a run without faults (no retry
	// rounds) the calls of one SendBatch that go to one regionserver travel in
	// one multi request - a server orders actions within a request only
	if len(w.Plan.Faults) == 0 && len(w.Plan.Rules) == 0 {
		for _, t := range w.Recs {
			for _, r := range t {
				if r.Op.Kind != "batch" || !r.Done || batchInvalid(r.Op) != "" {
					continue
				}
				perServer := map[int]map[uint64]bool{}
				for i := range r.Op.Batch {
					for _, x := range byNonce[r.Op.Batch[i].Nonce] {
						if x.Multi == 0 {
							continue
						}
						if perServer[x.Server] == nil {
							perServer[x.Server] = map[uint64]bool{}
						}
						perServer[x.Server][x.Multi] = true
					}
				}
				for sv, ms := range perServer {
					if len(ms) > 1 {
						vs = append(vs, w.viol("C12", "batch-split", "task %d op %d: the %d calls of the batch for regionserver rs%d arrived in %d separate multi requests in a fault-free run", r.Task, r.Idx, len(r.Op.Batch), sv, len(ms)))
					}
				}
			}
		}
	}
	// order: within each region action of each multi, calls of one batch appear in batch order
	type key struct {
		multi uint64
		reg   int
	}
	groups := map[key][]*hb.Exec{}
	for _, e := range c.Execs {
		if e.Multi != 0 && e.Nonce != 0 {
			k := key{e.Multi, e.RegPos}
			groups[k] = append(groups[k], e)
		}
	}
	var keys []key
	for k := range groups {
		keys = append(keys, k)
	}
	sort.Slice(keys, func(i, j int) bool {
		if keys[i].multi != keys[j].multi {
			return keys[i].multi < keys[j].multi
		}
		return keys[i].reg < keys[j].reg
	})
	for _, k := range keys {
		es := groups[k]
		sort.Slice(es, func(i, j int) bool { return es[i].MultiPos < es[j].MultiPos })
		last := map[int]int{}
		for _, e := range es {
			bp, ok := pos[e.Nonce]
			if !ok {
				continue
			}
			if prev, seen := last[bp.batch]; seen && bp.idx < prev {
				vs = append(vs, w.viol("C12", "per-region-order", "multi request %d, region %q: call %d of its batch (nonce %d) is presented after call %d of the same batch", k.multi, e.Region, bp.idx, e.Nonce, prev))
			}
			last[bp.batch] = bp.idx
		}
	}
	return vs
}

func batchSetup(w *World) {
	w.Env.Invariant = func() error {
		if w.Env.Step%64 == 0 {
			return w.CacheInvariant()
		}
		return nil
	}
}

// batchAfter lets stalled batches finish: heal, then give every batch the liveness budget.
func batchAfter(w *World, reason string) {
	if w.AllDone() {
		return
	}
	stabilise(w, reason)
}

func init() {
	register(&Profile{Name: "c07", Prop: "C07", Generate: genBatch("c07"), Setup: batchSetup, After: batchAfter,
		Check:      func(w *World, reason string) []Violation { return w.checkC07() },
		Nontrivial: func(w *World) bool { return len(w.Plan.Rules)+len(w.Plan.Faults) > 0 }})
	register(&Profile{Name: "c12", Prop: "C12", Generate: genBatch("c12"), Setup: batchSetup, After: batchAfter,
		Check: func(w *World, reason string) []Violation {
			vs := w.checkC12()
			// "each call is sent to the region owning its key": what the server
			// observer reports about calls of a multi-request counts for C12 too
			for _, v := range w.Env.C.Viol {
				if strings.HasPrefix(v, "C01 routing") && strings.Contains(v, "(multi)") {
					vs = append(vs, w.viol("C12", "batch-routing", "%s", strings.TrimPrefix(v, "C01 routing: ")))
					break
				}
			}
			return vs
		},
		Nontrivial: func(w *World) bool { return w.multiMixed() }})
}
