package sim

import (
	"fmt"
	"strings"
	"time"

	"gosim/rng"

	simrt "github.com/tsuna/gohbase/verifsimrt"
)

// C19 — Close is terminal and leaves nothing running.

func genC19(seed uint64, r *rng.Rand) *Plan {
	base := genFaulty("c19", FaultMix{Cluster: true, Classes: true, Conn: true, ZK: true, Max: 3})
	p := base(seed, r)
	g := &Gen{R: rng.New(rng.Derive(seed, 1919))}
	if g.R.Chance(0.4) {
		// calm cluster: only the Close matters
		p.Faults, p.ConnFaults = nil, nil
	}
	if g.R.Chance(0.4) {
		// slow dials: Close lands while a connection is being established
		p.Faults = append(p.Faults, &Fault{On: "step", N: 1, Act: "dialdelay", Dur: []int{1, 5, 50, 400, 3000, 40000}[g.R.Intn(6)]})
	}
	if g.R.Chance(0.15) {
		// ZooKeeper keeps failing, from the start or after some progress: the
		// establisher of hbase:meta (or of the master) is in its lookup loop
		// when Close comes
		at := g.R.Range(0, 6)
		p.Faults = append(p.Faults, &Fault{On: "exec", N: at, Act: "zkfail", Count: -1})
		p.Faults = append(p.Faults, &Fault{On: "exec", N: at, Act: "reset", Server: p.Layout.Meta})
	}
	if g.R.Chance(0.1) {
		// a slow ZooKeeper: lookups outlast the lookup timeout and Close; their
		// answers arrive when nobody waits for them any more
		p.Client.LookupMS = []int{0, 1000, 100}[g.R.Intn(3)]
		p.Faults = append(p.Faults, &Fault{On: "step", N: 1, Act: "zkdelay", Dur: []int{50, 500, 5000, 45000}[g.R.Intn(4)]})
	}
	// Close at a PRNG-chosen step, biased to the early windows (lookup, dial, probe)
	n := []int{g.R.Range(1, 60), g.R.Range(1, 250), g.R.Range(1, 1500)}[g.R.Intn(3)]
	p.Faults = append(p.Faults, &Fault{On: "step", N: n, Act: "close"})
	if g.R.Chance(0.5) {
		// closing twice is harmless
		p.Faults = append(p.Faults, &Fault{On: "step", N: n + g.R.Range(1, 200), Act: "close"})
	}
	// a late caller that starts after everything else
	p.Tasks = append(p.Tasks, Task{Ops: []Op{{Kind: "sleep", MS: g.R.Range(1, 400)},
		(&Gen{R: g.R, nonce: 900000}).SingleOp(p.Layout.Tables[0].Name, []byte("late"), []string{"get", "put"}),
		(&Gen{R: g.R, nonce: 900010}).batchOf(&p.Layout.Tables[0], 3, []string{"get", "put"})}})
	if g.R.Chance(0.3) {
		// the regions of a table are looked up (a loop of its own) around Close
		lt := &p.Tasks[len(p.Tasks)-1]
		lt.Ops = append(lt.Ops, Op{Kind: "cache", Table: p.Layout.Tables[0].Name})
		if g.R.Chance(0.5) {
			lt.Ops[0], lt.Ops[len(lt.Ops)-1] = lt.Ops[len(lt.Ops)-1], Op{Kind: "sleep", MS: g.R.Range(1, 400)}
		}
	}
	p.Sched.MaxFake = 20 * time.Minute
	if g.R.Chance(0.25) {
		// a scan with scanner renewal that is between two fetches (or has been
		// forgotten by the application) when Close comes: the renewer has to stop
		ts := &p.Layout.Tables[0]
		(&Gen{R: g.R}).PreloadRows(ts, g.R.Range(4, 30), 3)
		o := Op{Kind: "scan", Table: ts.Name, Nonce: 950001, NumRows: uint32(g.R.Range(1, 2)), RenewMS: g.R.Range(5, 400)}
		if g.R.Chance(0.5) {
			o.Abandon = g.R.Range(1, 4)
		} else {
			o.PauseMS = g.R.Range(50, 20000)
		}
		ops := []Op{o}
		if g.R.Chance(0.5) {
			ops = append([]Op{{Kind: "sleep", MS: g.R.Range(1, 200)}}, ops...)
		}
		p.Tasks = append(p.Tasks, Task{Ops: ops})
	}
	return p
}

func (w *World) checkC19(reason string) []Violation {
	var vs []Violation
	e := w.Env
	if w.ClosedStep == 0 {
		return nil // Close did not happen in this run
	}
	if !w.CloseReturned {
		vs = append(vs, w.viol("C19", "close-blocked", "Close was called at step %d and has not returned", w.ClosedStep))
		return vs
	}
	if w.CloseReturnT != w.ClosedT {
		vs = append(vs, w.viol("C19", "close-needs-time", "Close was called at %v and returned at %v: it waited for something", w.ClosedT, w.CloseReturnT))
	}
	// every call returned; calls started after Close returned get a client-closed error
	vs = append(vs, w.AllReturned("C19", "blocked-after-close")...)
	closedErr := func(s *Slot) bool {
		return s.ErrClass == "closed" || (s.ErrClass == "server" && strings.Contains(s.ErrStr, "client is closed")) || s.ErrClass == "notexecuted"
	}
	for _, t := range w.Recs {
		for _, r := range t {
			if !r.Done || r.Invoke <= w.CloseReturnStep {
				continue
			}
			where := fmt.Sprintf("task %d op %d (%s) started at step %d, after Close returned at step %d", r.Task, r.Idx, r.Op.Kind, r.Invoke, w.CloseReturnStep)
			switch r.Op.Kind {
			case "get", "put", "del", "app", "inc", "cas", "cache":
				if !closedErr(&r.Slot) {
					vs = append(vs, w.viol("C19", "call-after-close", "%s: returned %q instead of a client-closed error", where, firstLine(r.Slot.ErrStr)))
				}
			case "batch":
				if batchInvalid(r.Op) != "" {
					continue
				}
				for i := range r.Slots {
					if !closedErr(&r.Slots[i]) {
						vs = append(vs, w.viol("C19", "call-after-close", "%s slot %d: returned %q instead of a client-closed error", where, i, firstLine(r.Slots[i].ErrStr)))
						break
					}
				}
			}
		}
	}
	// every connection handed to the client has been closed by it
	for _, c := range e.Conns {
		if !c.IsClosed() {
			vs = append(vs, w.viol("C19", "connection-left-open", "connection #%d to %s (dialled at step %d, Close returned at step %d) is still open %v after Close", c.N, c.Addr, e.Dials[c.N-1].Step, w.CloseReturnStep, e.Now()-w.CloseReturnT))
		}
	}
	// nothing is started once the calls in progress have returned
	if w.quietMark.set {
		if e.NDials != w.quietMark.dials {
			vs = append(vs, w.viol("C19", "dial-after-close", "%d connection(s) dialled after Close returned and all calls had returned", e.NDials-w.quietMark.dials))
		}
		if e.ZK.Started != w.quietMark.zk {
			vs = append(vs, w.viol("C19", "lookup-after-close", "%d ZooKeeper querie(s) started after Close returned and all calls had returned", e.ZK.Started-w.quietMark.zk))
		}
		if e.NFrames != w.quietMark.frames {
			vs = append(vs, w.viol("C19", "request-after-close", "%d request(s) written after Close returned and all calls had returned", e.NFrames-w.quietMark.frames))
		}
	}
	// no goroutine of the client is left
	for _, g := range simrt.Live() {
		if strings.HasPrefix(g.Label, "task") || g.Label == "closer" {
			continue
		}
		vs = append(vs, w.viol("C19", "goroutine-left", "goroutine started at %s is still alive at %s, %v after Close", g.Label, g.Site, e.Now()-w.CloseReturnT))
		break
	}
	return vs
}

func init() {
	register(&Profile{Name: "c19", Prop: "C19", Generate: genC19,
		After: func(w *World, reason string) {
			e := w.Env
			// the cluster is healthy from here on; only the Close matters
			e.Heal()
			e.Knobs.MaxSteps = e.Step + 200000
			e.Knobs.MaxFake = e.Now() + 40*time.Minute
			e.Knobs.MaxIdle = 10 * time.Minute
			if !w.AllDone() {
				e.Loop(w.AllDone)
			}
			if w.ClosedStep == 0 {
				return
			}
			e.Loop(func() bool { return w.CloseReturned })
			// calls in progress have returned: from now on nothing may start
			e.Drain(time.Second)
			w.quietMark.set, w.quietMark.dials, w.quietMark.zk, w.quietMark.frames = w.AllDone(), e.NDials, e.ZK.Started, e.NFrames
			e.Drain(5 * time.Minute)
		},
		Check:      func(w *World, reason string) []Violation { return w.checkC19(reason) },
		Nontrivial: func(w *World) bool { return w.ClosedStep != 0 && w.Env.NFrames > 0 },
	})
}
