package sim

import (
	"fmt"
	"strings"

	"gosim/hb"
	"gosim/rng"
)

// C20 — one connection per regionserver, shared by all its regions.
func init() {
	register(&Profile{Name: "c20", Prop: "C20",
		Generate: func(seed uint64, r *rng.Rand) *Plan {
			g := &Gen{R: r}
			p := &Plan{Profile: "c20", Seed: seed}
			p.Layout = g.Layout(LayoutOpts{MaxServers: 3, MaxTables: 1, MaxRegions: 8, KeyLen: 3, OneTable: true})
			p.Client = g.SwarmClient()
			p.Client.ReadTimeoutMS = 30000
			p.Sched = g.SwarmSched()
			ts := &p.Layout.Tables[0]
			nt := g.R.Range(1, 8)
			kinds := []string{"get", "put", "get", "inc"}
			for t := 0; t < nt; t++ {
				var ops []Op
				n := g.R.Range(1, 4)
				for i := 0; i < n; i++ {
					if g.R.Chance(0.08) {
						ops = append(ops, Op{Kind: "cache", Table: ts.Name})
						continue
					}
					if g.R.Chance(0.25) {
						ops = append(ops, g.batchOf(ts, 6, []string{"get", "put", "inc"}))
						continue
					}
					ops = append(ops, g.SingleOp(ts.Name, g.KeyNear(ts.Splits, 3), kinds))
				}
				p.Tasks = append(p.Tasks, Task{Ops: ops})
			}
			// slow dials: many first users arrive while the one dial is in progress
			if g.R.Chance(0.4) {
				p.Faults = append(p.Faults, &Fault{On: "step", N: 1, Act: "dialdelay", Dur: []int{1, 5, 50, 400, 3000}[g.R.Intn(5)]})
			}
			// with faults in a third of the runs
			if g.R.Chance(0.35) {
				nf := g.R.Range(1, 3)
				for i := 0; i < nf; i++ {
					switch g.R.Intn(6) {
					case 5:
						// a region moves to another server (it stays known to the
						// connection it used before); later a connection breaks
						p.Faults = append(p.Faults, &Fault{On: "exec", N: g.R.Range(1, 8), Act: "move", Table: ts.Name, Region: g.R.Intn(8), To: g.R.Intn(p.Layout.Servers)})
						p.Faults = append(p.Faults, &Fault{On: "exec", N: g.R.Range(6, 20), Act: "reset", Server: g.R.Intn(p.Layout.Servers)})
					case 4:
						// retry-later answers that also hit establishment probes: a region-level
						// condition, the shared connection is healthy
						p.Faults = append(p.Faults, &Fault{On: "exec", N: g.R.Range(1, 12), Act: "rule",
							Rule: &hb.Rule{Class: hb.RetryableClasses[g.R.Intn(len(hb.RetryableClasses))], Count: g.R.Range(1, 3), Server: -1,
								Level: []string{"action", "region", "call"}[g.R.Intn(3)], Kind: "Any", Table: ts.Name}})
					case 0:
						p.Faults = append(p.Faults, &Fault{On: "exec", N: g.R.Range(1, 12), Act: "reset", Server: g.R.Intn(p.Layout.Servers)})
					case 1:
						p.ConnFaults = append(p.ConnFaults, &ConnFault{Conn: g.R.Range(1, 3), Op: g.R.Range(1, 30), Frac: g.R.Float()})
					case 2:
						p.Faults = append(p.Faults, &Fault{On: "exec", N: g.R.Range(1, 12), Act: "rule",
							Rule: &hb.Rule{Class: hb.FatalClasses[g.R.Intn(len(hb.FatalClasses))], Count: 1, Server: -1, Level: "call"}})
					case 3:
						p.Faults = append(p.Faults, &Fault{On: "exec", N: g.R.Range(1, 10), Act: "split", Table: ts.Name,
							Region: g.R.Intn(8), Key: g.Key(3), Server: g.R.Intn(3), To: g.R.Intn(3)})
					}
				}
			}
			if rng.New(rng.Derive(seed, 2021)).Chance(0.2) {
				p.Layout.HostCase = true
			}
			// a second table that is dropped while the connections its regions share
			// with the first table's regions are healthy: the regions that are gone
			// are forgotten, the connections are not
			g2 := &Gen{R: rng.New(rng.Derive(seed, 2020)), nonce: 700000}
			if nreg := len(ts.Splits) + 1; g2.R.Chance(0.15) && nreg <= 4 {
				name := "zz"
				if ts.Name == name {
					name = "zy"
				}
				t2 := TableSpec{Name: name, First: g2.R.Intn(p.Layout.Servers), Splits: g2.Splits(g2.R.Range(0, 1), 3)}
				for range len(t2.Splits) + 1 {
					t2.IDs = append(t2.IDs, 0)
				}
				p.Layout.Tables = append(p.Layout.Tables, t2)
				ts = &p.Layout.Tables[0]
				on2 := func() Op { return g2.SingleOp(name, g2.KeyNear(t2.Splits, 3), []string{"get", "put"}) }
				for t := range p.Tasks {
					if g2.R.Chance(0.5) {
						p.Tasks[t].Ops = append([]Op{on2()}, p.Tasks[t].Ops...)
					}
					if g2.R.Chance(0.5) {
						p.Tasks[t].Ops = append(p.Tasks[t].Ops, on2())
					}
				}
				late := []Op{on2(), {Kind: "sleep", MS: g2.R.Range(1, 300)}, on2(), on2()}
				for i, n := 0, g2.R.Range(1, 4); i < n; i++ {
					late = append(late, g2.SingleOp(ts.Name, g2.KeyNear(ts.Splits, 3), kinds))
				}
				p.Tasks = append(p.Tasks, Task{Ops: late})
				p.Faults = append(p.Faults, &Fault{On: "exec", N: g2.R.Range(2, 14), Act: "drop", Table: name})
			}
			return p
		},
		After: func(w *World, reason string) {
			w.Env.Heal()
			w.Env.Drain(2 * 60 * 1e9)
		},
		Check: func(w *World, reason string) []Violation {
			vs := w.DialCheck()
			if err := w.CacheInvariant(); err != nil {
				vs = append(vs, w.viol("C20", "snapshot", "%v", err))
			}
			if w.Env.StopErr == nil && w.AllDone() {
				if err := w.CacheSettled(); err != nil {
					vs = append(vs, w.viol("C08", "cache-changed-behind", "%v (discovering a region that is already cached, or that overlaps a newer one, must leave the cache as it is)", err))
				}
			}
			nf := len(w.Plan.ConnFaults)
			for _, f := range w.Plan.Faults {
				if f.Act != "dialdelay" { // a slow dial is not a failure
					nf++
				}
			}
			if nf == 0 {
				seen := map[string]int{}
				for _, d := range w.Env.Dials {
					seen[strings.ToLower(d.Addr)]++
				}
				for a, n := range seen {
					if n > 1 {
						vs = append(vs, w.viol("C20", "dial-count", "fault-free run dialled %s %d times", a, n))
					}
				}
				vs = append(vs, w.AllReturned("C20", "completion")...)
			}
			return vs
		},
		Nontrivial: func(w *World) bool {
			// at least two regions on one server were first used by different tasks
			return len(w.Plan.Tasks) >= 2 && len(w.Env.C.Regions) >= 2
		},
		Setup: func(w *World) {
			w.Env.Invariant = func() error {
				if w.Env.Step%16 == 0 {
					return w.CacheInvariant()
				}
				return nil
			}
		},
	})
}

var _ = fmt.Sprintf
