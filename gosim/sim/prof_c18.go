package sim

import (
	"context"
	"fmt"
	"time"

	"gosim/rng"

	"github.com/tsuna/gohbase/hrpc"
	"github.com/tsuna/gohbase/region"
	simrt "github.com/tsuna/gohbase/verifsimrt"
)

// C18 — silent servers are detected; idle connections are left alone.
// Region-client harness (shared with C03): request/response interleavings
// take the number of outstanding requests 0 -> n -> 0 -> n ..., including
// responses for cancelled calls and multi requests; then either the server
// goes silent with requests outstanding, or the connection sits idle for
// 3-20 read timeouts and is then used again.

func genC18(seed uint64, r *rng.Rand) *Plan {
	g := &Gen{R: r}
	p := &Plan{Profile: "c18", Seed: seed}
	p.Layout = Layout{Servers: 1, Tables: []TableSpec{{Name: "t", Splits: [][]byte{[]byte("g"), []byte("p")}}}}
	p.Client = ClientKnobs{QueueSize: []int{1, 2, 3, 10}[g.R.Intn(4)], FlushMS: []int{-1, 1, 5}[g.R.Intn(3)],
		ReadTimeoutMS: []int{50, 1000, 30000}[g.R.Intn(3)], Snappy: g.R.Chance(0.2)}
	p.Sched = g.SwarmSched()
	p.Sched.Reorder = []float64{0, 0.5, 1}[g.R.Intn(3)]
	nt := g.R.Range(1, 5)
	kinds := []string{"get", "put", "inc", "get"}
	for t := 0; t < nt; t++ {
		var ops []Op
		n := g.R.Range(1, 5)
		for i := 0; i < n; i++ {
			if g.R.Chance(0.2) {
				ops = append(ops, Op{Kind: "sleep", MS: g.R.Range(0, 3) * p.Client.ReadTimeoutMS / 2})
				continue
			}
			if g.R.Chance(0.3) {
				b := Op{Kind: "batch"}
				nb := g.R.Range(1, 4)
				for j := 0; j < nb; j++ {
					o := g.SingleOp("t", []byte{byte('a' + g.R.Intn(26))}, kinds)
					o.SkipBatch = false
					if g.R.Chance(0.2) {
						o.Ctx = CtxSpec{Kind: "own"}
					}
					b.Batch = append(b.Batch, o)
				}
				ops = append(ops, b)
				continue
			}
			o := g.SingleOp("t", []byte{byte('a' + g.R.Intn(26))}, kinds)
			if g.R.Chance(0.3) {
				o.MS = -1 // fire and forget
			}
			if g.R.Chance(0.06) {
				// a call that cannot be marshalled (nil row), sent on its own: it fails
				// before anything is written and must leave the count of outstanding
				// requests alone
				o = Op{Kind: "get", Table: "t", Key: nil, Nonce: g.Nonce(), SkipBatch: true}
			}
			ops = append(ops, o)
		}
		p.Tasks = append(p.Tasks, Task{Ops: ops})
	}
	// cancel some calls after they were sent, so that responses for cancelled calls arrive
	nc := g.R.Intn(3)
	for i := 0; i < nc; i++ {
		p.Faults = append(p.Faults, &Fault{On: "frames", N: g.R.Range(1, 12), Act: "cancel", Task: g.R.Intn(nt), Op: g.R.Intn(4), Slot: g.R.Intn(3)})
	}
	if g.R.Chance(0.3) {
		// a server that takes its time over each request: responses arrive later
		// than the requests that follow them were written
		p.Faults = append(p.Faults, &Fault{On: "step", N: 1, Act: "slow", Server: 0, Dur: 1 + g.R.Intn(p.Client.ReadTimeoutMS*2/3)})
	}
	if g.R.Chance(0.4) {
		p.Scenario = "silent"
		p.Faults = append(p.Faults, &Fault{On: "exec", N: g.R.Range(0, 10), Act: "silent", Server: 0})
		if g.R.Chance(0.35) {
			// the server stops reading as well: requests pile up in the socket
			// buffers and a Write may block
			p.Faults[len(p.Faults)-1] = &Fault{On: "exec", N: g.R.Range(1, 10), Act: "stall", Server: 0, Count: []int{0, 60, 150, 400, 5000}[g.R.Intn(5)]}
		}
	} else {
		p.Scenario = "idle"
		p.StableMS = g.R.Range(3, 20) * p.Client.ReadTimeoutMS
	}
	return p
}

func checkC18(w *rcWorld, out *Outcome, root context.Context, reason string) {
	e := w.e
	p := w.p
	timeout := ms(p.Client.ReadTimeoutMS)
	add := func(oracle, format string, a ...any) {
		out.Violations = append(out.Violations, Violation{Prop: "C18", Oracle: oracle, Msg: fmt.Sprintf(format, a...), Step: e.Step, FakeNS: int64(e.Now())})
	}
	if len(e.Conns) == 0 {
		return
	}
	cn := e.Conns[0]
	switch p.Scenario {
	case "silent":
		// let the read deadline run out
		e.Knobs.MaxIdle = 2 * timeout
		e.Drain(3 * timeout)
		_, stalled := e.Stall[0]
		// requests the client has written: seen by the server, or accepted
		// whole into the socket buffers of a server that does not read
		written := func() int { return cn.ReqWritten + cn.heldFrames() }
		for i := 0; i < 4 && written() > cn.respProduced() && !cn.IsClosed() && e.Now() < cn.LastWriteAt+timeout; i++ {
			// a request was written less than one timeout ago: let its deadline pass
			e.Drain(cn.LastWriteAt + timeout - e.Now() + time.Millisecond)
		}
		outstanding := (cn.Srv.Silent || stalled) && written() > cn.respProduced()
		if stalled && outstanding {
			out.Extra["stalled_with_outstanding"]++
		}
		out.Nontrivial = outstanding
		if outstanding {
			out.Extra["silent_with_outstanding"]++
			if !cn.IsClosed() {
				add("silence-undetected", "server went silent with %d request(s) unanswered (last request written at %v) but the connection is still open at %v, read timeout %v",
					written()-cn.respProduced(), cn.LastWriteAt, e.Now(), timeout)
			} else if cn.ClosedAt > cn.LastWriteAt+timeout {
				add("detected-late", "unanswered requests were failed over at %v, later than the read timeout %v after the last request written at %v", cn.ClosedAt, timeout, cn.LastWriteAt)
			}
			// every call with a live context has a completion
			for _, cl := range w.calls {
				for {
					select {
					case r := <-cl.call.ResultChan():
						cl.results = append(cl.results, r)
						continue
					default:
					}
					break
				}
				live := cl.ctx.Err() == nil && (cl.batchCtx == nil || cl.batchCtx.Err() == nil)
				if cl.handed && live && len(cl.results) == 0 {
					add("not-failed-over", "call nonce=%d outstanding on the silent server was never completed", cl.op.Nonce)
					break
				}
			}
		}
	case "idle":
		// everything written has been answered; the connection must survive idling
		e.Knobs.MaxIdle = time.Duration(p.StableMS) * time.Millisecond
		e.Drain(ms(200)) // let the last responses arrive
		if cn.IsClosed() {
			add("closed-while-busy", "connection closed by the client at %v although no fault was injected", cn.ClosedAt)
			return
		}
		if cn.ReqWritten != cn.respProduced() || len(cn.SC.Pending) > 0 {
			return // something is still in flight (should not happen); not an idle period
		}
		idleFrom := e.Now()
		e.Drain(ms(p.StableMS))
		out.Nontrivial = true
		out.Extra["idle_periods"]++
		if cn.IsClosed() {
			add("idle-connection-closed", "connection with nothing outstanding (idle since %v, %d requests written, all answered) was closed by the client at %v, read timeout %v (armed deadline: %v)",
				idleFrom, cn.ReqWritten, cn.ClosedAt, timeout, cn.ReadDeadline())
			return
		}
		if dl := cn.ReadDeadline(); !dl.IsZero() {
			add("deadline-armed-while-idle", "a read deadline (%v) is armed on a connection with nothing outstanding", dl.Sub(e.T0))
		}
		// and it works normally afterwards
		var late *rcCall
		done := false
		simrt.Go("late", func() {
			op := &Op{Kind: "get", Table: "t", Key: []byte("k"), Nonce: 999001, SkipBatch: true}
			late = w.mkCall(99, 0, 0, op, root)
			w.rc.QueueRPC(late.call)
			late.handed = true
			w.wait(late)
			done = true
		})
		e.Knobs.MaxIdle = 2 * timeout
		e.Loop(func() bool { return done })
		if late == nil || len(late.results) != 1 || late.results[0].Error != nil {
			var err error
			if late != nil && len(late.results) > 0 {
				err = late.results[0].Error
			}
			add("idle-connection-unusable", "a request sent after the idle period did not succeed: %v", err)
		} else if len(e.Dials) != 1 {
			add("redialled", "the request after the idle period needed a new connection")
		}
	}
}

// heldFrames counts the complete request frames sitting in the socket
// buffers of a stalled server.
func (c *Conn) heldFrames() int {
	c.lock()
	defer c.unlock()
	rest, hello := c.SC.Parser.Unparsed()
	if !hello {
		return 0
	}
	// the server may hold the beginning of a frame whose end is in the buffers
	b := append(append([]byte(nil), rest...), c.held...)
	n := 0
	for len(b) >= 4 {
		l := int(b[0])<<24 | int(b[1])<<16 | int(b[2])<<8 | int(b[3])
		if len(b) < 4+l {
			break
		}
		b = b[4+l:]
		n++
	}
	return n
}

func (c *Conn) respProduced() int {
	// responses produced so far = frames executed (each executed request produces one frame)
	return c.RespCount
}

func init() {
	register(&Profile{Name: "c18", Prop: "C18", Generate: genC18, Custom: func(p *Plan, keep bool) *Outcome { return runRC(p, keep, "c18") }})
}

var _ = hrpc.NewGet
var _ = region.NewClient
