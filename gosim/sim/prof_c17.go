package sim

import (
	"context"
	"fmt"
	"sort"
	"strings"
	"time"

	"github.com/tsuna/gohbase/pb"
	"gosim/hb"
	"gosim/rng"

	"github.com/tsuna/gohbase"
	simrt "github.com/tsuna/gohbase/verifsimrt"
)

// C17 — retries back off and never become a hot loop.

// backoffSchedule is taken from the property text, not from the code:
// 16 ms, doubling while below 5 s, then +5 s while below 30 s, then constant.
func backoffSchedule(n int) []time.Duration {
	var out []time.Duration
	d := 16 * time.Millisecond
	for len(out) < n {
		out = append(out, d)
		switch {
		case d < 5*time.Second:
			d *= 2
		case d < 30*time.Second:
			d += 5 * time.Second
		}
	}
	return out
}

func genC17(seed uint64, r *rng.Rand) *Plan {
	g := &Gen{R: r}
	p := &Plan{Profile: "c17", Seed: seed}
	p.Layout = g.Layout(LayoutOpts{MaxServers: 3, MaxTables: 1, MaxRegions: 3, KeyLen: 2, OneTable: true})
	ts := &p.Layout.Tables[0]
	p.Client = g.SwarmClient()
	p.Client.ReadTimeoutMS = []int{1000, 30000}[g.R.Intn(2)]
	p.Client.LookupMS = []int{0, 1000, 30000}[g.R.Intn(3)]
	p.Sched = g.SwarmSched()
	p.Sched.Starve = 0
	p.Sched.MaxSteps = 60000
	p.Sched.MaxFake = time.Duration(g.R.Range(2, 12)) * time.Minute
	nt := g.R.Range(1, 3)
	for t := 0; t < nt; t++ {
		var ops []Op
		n := g.R.Range(1, 2)
		for i := 0; i < n; i++ {
			if g.R.Chance(0.4) {
				ops = append(ops, g.batchOf(ts, 4, []string{"get", "put", "inc"}))
			} else {
				ops = append(ops, g.SingleOp(ts.Name, g.KeyNear(ts.Splits, 2), []string{"get", "put", "inc", "app"}))
			}
		}
		p.Tasks = append(p.Tasks, Task{Ops: ops})
	}
	// one persistently failing element per run, from the start or after some progress
	at := 0
	if g.R.Chance(0.4) {
		at = g.R.Range(1, 6)
	}
	scen := []string{"retry-later", "flaky-server", "fatal-forever", "never-online", "meta-silent", "meta-down", "zk-errors", "log-closed", "fatal-in-multi", "nsre-request-only", "mixed-batch", "meta-rows-bad", "slow-dial-relayout", "cache-meta-hang", "dial-blackhole"}[g.R.Intn(15)]
	p.Scenario = scen
	switch scen {
	case "retry-later":
		// the requests of the workload, every request, or only the establishment
		// probes are answered "try again later"
		p.Faults = append(p.Faults, &Fault{On: "exec", N: at, Act: "rule", Rule: &hb.Rule{Class: hb.RetryableClasses[g.R.Intn(len(hb.RetryableClasses))], Count: -1, Server: -1,
			Level: []string{"action", "region", "call"}[g.R.Intn(3)], Kind: []string{"", "", "Any", "Probe"}[g.R.Intn(4)], Table: ts.Name}})
	case "flaky-server":
		p.Faults = append(p.Faults, &Fault{On: "exec", N: at, Act: "flaky", Server: g.R.Intn(p.Layout.Servers)})
	case "fatal-forever":
		p.Faults = append(p.Faults, &Fault{On: "exec", N: at, Act: "abort", Server: g.R.Intn(p.Layout.Servers), Rule: &hb.Rule{Class: hb.FatalClasses[g.R.Intn(len(hb.FatalClasses))]}})
	case "never-online":
		p.Faults = append(p.Faults, &Fault{On: "exec", N: at, Act: "opening", Table: ts.Name, Region: g.R.Intn(3)})
		if g.R.Chance(0.5) {
			// the table's regions are looked up as a whole, repeatedly, while one of
			// them is cached and being re-established: that adds no establisher
			var ops []Op
			for i, n := 0, g.R.Range(2, 4); i < n; i++ {
				ops = append(ops, Op{Kind: "sleep", MS: g.R.Range(5, 120)}, Op{Kind: "cache", Table: ts.Name})
			}
			p.Tasks = append(p.Tasks, Task{Ops: ops})
		}
	case "meta-silent":
		p.Faults = append(p.Faults, &Fault{On: "exec", N: at, Act: "silent", Server: p.Layout.Meta})
	case "meta-down":
		p.Faults = append(p.Faults, &Fault{On: "exec", N: at, Act: "down", Server: p.Layout.Meta})
	case "zk-errors":
		p.Faults = append(p.Faults, &Fault{On: "exec", N: at, Act: "zkfail", Count: -1})
		p.Faults = append(p.Faults, &Fault{On: "exec", N: at, Act: "reset", Server: p.Layout.Meta})
	case "log-closed":
		// the probe (a Get) succeeds, mutations keep failing with a not-serving class
		p.Faults = append(p.Faults, &Fault{On: "exec", N: at, Act: "rule", Rule: &hb.Rule{Class: hb.ExIOException, Msg: hb.LogClosedMsg, Kind: "Mutate", Count: -1, Server: -1}})
	case "fatal-in-multi":
		p.Faults = append(p.Faults, &Fault{On: "exec", N: at, Act: "rule", Rule: &hb.Rule{Class: hb.FatalClasses[g.R.Intn(len(hb.FatalClasses))], Count: -1, Server: -1, Level: "action"}})
	case "mixed-batch":
		// one batch whose calls keep failing with different classes: some
		// retry-later, some not-serving / fatal
		p.Layout.Servers, p.Layout.Meta, p.Layout.Master = 1, 0, 0
		for i := range p.Layout.Tables {
			p.Layout.Tables[i].First = 0
		}
		b := g.batchOf(ts, 5, []string{"get", "put", "inc"})
		for len(b.Batch) < 2 {
			b.Batch = append(b.Batch, g.SingleOp(ts.Name, g.KeyNear(ts.Splits, 2), []string{"get", "put"}))
		}
		p.Tasks = []Task{{Ops: []Op{b}}}
		for j := range b.Batch {
			var cls string
			switch g.R.Intn(3) {
			case 0:
				cls = hb.RetryableClasses[g.R.Intn(len(hb.RetryableClasses))]
			case 1:
				cls = hb.NotServingClasses[g.R.Intn(2)]
			case 2:
				cls = hb.FatalClasses[g.R.Intn(len(hb.FatalClasses))]
			}
			p.Rules = append(p.Rules, &hb.Rule{Nonce: b.Batch[j].Nonce, Class: cls, Count: -1, Server: -1, Level: "action"})
		}
	case "slow-dial-relayout":
		// connections take long to establish while the table's regions are
		// split / merged / moved under the waiting requests: establishers give
		// up dials for regions that died and start over for their successors
		p.Faults = append(p.Faults, &Fault{On: "step", N: 1, Act: "dialdelay", Dur: []int{2000, 20000, 45000}[g.R.Intn(3)]})
		for i, n := 0, g.R.Range(1, 3); i < n; i++ {
			f := &Fault{On: "exec", N: g.R.Range(1, 5), Table: ts.Name, Region: g.R.Intn(4), Server: g.R.Intn(p.Layout.Servers), To: g.R.Intn(p.Layout.Servers)}
			switch g.R.Intn(3) {
			case 0:
				f.Act, f.Key = "split", g.KeyNear(ts.Splits, 2)
			case 1:
				f.Act = "merge"
			case 2:
				f.Act = "move"
			}
			if g.R.Chance(0.5) {
				f.On, f.N = "ms", g.R.Range(1, 60000)
			}
			p.Faults = append(p.Faults, f)
		}
		for len(p.Tasks) < 3 {
			p.Tasks = append(p.Tasks, Task{Ops: []Op{g.SingleOp(ts.Name, g.KeyNear(ts.Splits, 2), []string{"get", "put", "inc"})}})
		}
	case "dial-blackhole":
		// a regionserver that swallows connection attempts (SYNs dropped): every
		// dial lasts until the establisher's own deadline, the lookup timeout, on
		// the simulated clock. The region is alive and a request waits for it.
		// From the start (the dial for hbase:meta hangs) or after the region has
		// been used and its server's connections were reset.
		p.Client.LookupMS = []int{250, 1000, 5000}[g.R.Intn(3)]
		o := g.SingleOp(ts.Name, g.KeyNear(ts.Splits, 2), []string{"get", "put"})
		if g.R.Chance(0.5) {
			p.Tasks = []Task{{Ops: []Op{o}}}
			p.Faults = append(p.Faults, &Fault{On: "step", N: 1, Act: "dialdelay", Dur: 3600000})
		} else {
			o2 := g.SingleOp(ts.Name, o.Key, []string{"get", "put"})
			p.Tasks = []Task{{Ops: []Op{o, {Kind: "sleep", MS: 2000}, o2}}}
			p.Faults = append(p.Faults, &Fault{On: "ms", N: 1000, Act: "dialdelay", Dur: 3600000})
			p.Faults = append(p.Faults, &Fault{On: "ms", N: 1001, Act: "reset", Server: g.R.Intn(p.Layout.Servers)})
		}
		p.Sched.MaxFake = time.Duration(g.R.Range(2, 12)) * time.Minute
	case "cache-meta-hang":
		// CacheRegions (the scan of all of a table's rows in hbase:meta) while the
		// regionserver of hbase:meta has stopped answering: every attempt ends
		// with the lookup timeout, after exactly that long on the simulated clock,
		// while the connection stays (the read timeout is longer)
		p.Client.ReadTimeoutMS = []int{30000, 600000}[g.R.Intn(2)]
		p.Client.LookupMS = []int{250, 1000, 5000}[g.R.Intn(3)]
		p.Tasks = []Task{{Ops: []Op{g.SingleOp(ts.Name, g.KeyNear(ts.Splits, 2), []string{"get", "put"}), {Kind: "sleep", MS: 2000}, {Kind: "cache", Table: ts.Name}}}}
		p.Faults = append(p.Faults, &Fault{On: "ms", N: 1000, Act: "silent", Server: p.Layout.Meta})
		p.Sched.MaxFake = time.Duration(g.R.Range(2, 12)) * time.Minute
	case "meta-rows-bad":
		// hbase:meta answers, but what it says about the table's regions is unusable
		kind := []string{"regioninfo-offline", "server-empty", "server-absent", "regioninfo-bad-proto", "regioninfo-empty", "regioninfo-absent", "region-older", "region-older-parent", "region-older-parent", "rowkey-search-key"}[g.R.Intn(10)]
		p.Faults = append(p.Faults, &Fault{On: "exec", N: at, Act: "metabad", Rule: &hb.Rule{Msg: kind}})
		if at > 0 {
			// make the client look the regions up again: by not-serving answers
			// (the regions keep their connection while they are re-established) or by
			// a connection reset (they lose it)
			if g.R.Chance(0.5) {
				p.Faults = append(p.Faults, &Fault{On: "exec", N: at, Act: "rule", Rule: &hb.Rule{Class: hb.NotServingClasses[g.R.Intn(2)], Count: -1, Server: -1, Level: "region", Table: ts.Name}})
			} else {
				p.Faults = append(p.Faults, &Fault{On: "exec", N: at + g.R.Range(0, 3), Act: "reset", Server: g.R.Intn(p.Layout.Servers)})
			}
		}
	case "nsre-request-only":
		p.Faults = append(p.Faults, &Fault{On: "exec", N: at, Act: "rule", Rule: &hb.Rule{Class: hb.NotServingClasses[g.R.Intn(2)], Count: -1, Server: -1, Level: []string{"action", "region"}[g.R.Intn(2)]}})
	}
	return p
}

type stream struct {
	name  string
	times []int64
	free  int // gaps that may be shorter than the first wait
}

// checkStream verifies lower bounds on the gaps of one attempt stream.
func (w *World) checkStream(s stream) []Violation {
	var vs []Violation
	if len(s.times) < 2 {
		return nil
	}
	sort.Slice(s.times, func(i, j int) bool { return s.times[i] < s.times[j] })
	sched := backoffSchedule(len(s.times) + 2)
	// cumulative bound: the k-th attempt cannot come before the sum of the first k-free waits
	var sum time.Duration
	short := 0
	wi := 0
	for k := 1; k < len(s.times); k++ {
		gap := time.Duration(s.times[k] - s.times[k-1])
		want := sched[wi]
		if gap < want {
			short++
			if short > s.free {
				vs = append(vs, w.viol("C17", "gap-too-short", "%s: attempt %d follows attempt %d after %v; the back-off schedule demands at least %v there (%d attempts in %v, %d gaps shorter than scheduled, %d allowed)",
					s.name, k+1, k, gap, want, len(s.times), time.Duration(s.times[len(s.times)-1]-s.times[0]), short, s.free))
				return vs
			}
			continue
		}
		sum += want
		wi++
	}
	return vs
}

func (w *World) checkC17() []Violation {
	var vs []Violation
	c := w.Env.C
	scen := w.Plan.Scenario
	free := 0
	switch scen {
	case "flaky-server", "fatal-forever", "fatal-in-multi", "log-closed", "nsre-request-only", "never-online", "slow-dial-relayout":
		// a connection-level failure may be retried immediately at most twice;
		// the same allowance is made for not-serving answers, whose retries wait
		// for the re-establishment of the region instead
		free = 2
	case "meta-rows-bad":
		// the variant "after some progress" forces the re-lookup with not-serving
		// answers: the same allowance as in nsre-request-only
		for _, f := range w.Plan.Faults {
			if f.Act == "rule" && f.Rule != nil && (f.Rule.Class == hb.NotServingClasses[0] || f.Rule.Class == hb.NotServingClasses[1]) {
				free = 2
			}
		}
	}
	// (1) attempts per user request
	byNonce := map[uint64][]int64{}
	var nonces []uint64
	for _, e := range c.Execs {
		if e.Nonce == 0 {
			continue
		}
		if _, ok := byNonce[e.Nonce]; !ok {
			nonces = append(nonces, e.Nonce)
		}
		byNonce[e.Nonce] = append(byNonce[e.Nonce], e.ArrT)
	}
	// requests a flaky server dropped were not executed: use frame arrivals instead
	for _, n := range nonces {
		f := free
		if scen == "mixed-batch" {
			f = 2
			for _, rl := range w.Plan.Rules {
				if rl.Nonce == n {
					for _, rc := range hb.RetryableClasses {
						if rl.Class == rc {
							f = 0 // a retry-later answer is always followed by a wait
						}
					}
				}
			}
		}
		vs = append(vs, w.checkStream(stream{name: fmt.Sprintf("scenario %s, request nonce %d", scen, n), times: byNonce[n], free: f})...)
		if len(vs) > 0 {
			return vs
		}
	}
	// (2) establishment probes of one region outage: an outage ends when the
	// probe is answered without a retryable / not-serving / fatal class, so
	// the probe stream of a region is cut after every such answer
	type seg struct{ times []int64 }
	probes := map[string][]*seg{}
	var regs []string
	for _, e := range c.Execs {
		if e.Kind != "Probe" {
			continue
		}
		if _, ok := probes[e.Region]; !ok {
			regs = append(regs, e.Region)
			probes[e.Region] = []*seg{{}}
		}
		l := probes[e.Region]
		cur := l[len(l)-1]
		cur.times = append(cur.times, e.ArrT)
		if e.Err == "" || !retryClass(e.Err) {
			probes[e.Region] = append(l, &seg{})
		}
	}
	// The probes of a region are one stream because a region has one
	// establisher at a time. When hbase:meta hands out descriptions of regions
	// that do not exist (an older incarnation, a stale parent), lookups made at
	// different moments yield different region objects with one name, each with
	// an establisher of its own: their first probes may coincide.
	probeFree := 0
	for _, f := range w.Plan.Faults {
		if f.Act == "metabad" && (strings.HasPrefix(f.Rule.Msg, "region-older") || strings.HasPrefix(f.Rule.Msg, "rowkey-")) {
			probeFree = 2
		}
	}
	for _, r := range regs {
		for i, sg := range probes[r] {
			vs = append(vs, w.checkStream(stream{name: fmt.Sprintf("scenario %s, establishment probes of outage %d of region %q", scen, i+1, r), times: sg.times, free: probeFree})...)
			if len(vs) > 0 {
				return vs
			}
		}
	}
	// (3) meta lookups, zookeeper queries, dials of an unreachable server
	var metas, zks []int64
	for _, e := range c.Execs {
		if e.Kind == "Meta" {
			metas = append(metas, e.ArrT)
		}
	}
	// ZooKeeper: an attempt stream is a run of failing queries (the back-off
	// starts with the first failure) up to and including the next success
	var zkRuns [][]int64
	for _, q := range w.Env.ZK.Queries {
		if len(zks) == 0 && !q.Err {
			continue
		}
		zks = append(zks, int64(q.At))
		if !q.Err {
			zkRuns = append(zkRuns, zks)
			zks = nil
		}
	}
	if len(zks) > 0 {
		zkRuns = append(zkRuns, zks)
	}
	dials := map[string][]int64{}
	for _, d := range w.Env.Dials {
		if d.Err != "" {
			dials[d.Addr] = append(dials[d.Addr], int64(d.At))
		}
	}
	ntasks := len(w.Plan.Tasks) + len(c.Regions)
	if scen == "zk-errors" || scen == "meta-down" || scen == "meta-silent" {
		for _, run := range zkRuns {
			vs = append(vs, w.checkStream(stream{name: "scenario " + scen + ", zookeeper queries", times: run, free: 1})...)
		}
	}
	for a, ts := range dials {
		vs = append(vs, w.checkStream(stream{name: "scenario " + scen + ", failing dials of " + a, times: ts, free: ntasks})...)
	}
	if scen == "meta-rows-bad" && len(w.Plan.Tasks) == 1 && len(w.Plan.Tasks[0].Ops) == 1 && w.Plan.Tasks[0].Ops[0].Kind != "batch" &&
		len(w.Plan.Faults) == 1 && w.Plan.Faults[0].N == 0 {
		// one call, hbase:meta unusable from the start: all lookups are the
		// attempts of that call's lookup loop, one stream
		vs = append(vs, w.checkStream(stream{name: "scenario " + scen + ", hbase:meta lookups", times: metas, free: 1})...)
	}
	if scen == "cache-meta-hang" {
		// the scan requests for hbase:meta that reached the silent server: each
		// attempt lasts exactly the lookup timeout, the rest of a gap is the wait
		var arr []int64
		for _, cn := range w.Env.Conns {
			for _, rq := range cn.SC.Pending {
				if sr, ok := rq.Msg.(*pb.ScanRequest); ok && strings.HasPrefix(string(sr.GetRegion().GetValue()), "hbase:meta") {
					arr = append(arr, rq.Arrived)
				}
			}
		}
		sort.Slice(arr, func(i, j int) bool { return arr[i] < arr[j] })
		lk := int64(ms(w.Plan.Client.LookupMS))
		waits := []int64{0}
		for k := 1; k < len(arr); k++ {
			// the stream checker works on attempt times: remove the attempts' own duration
			waits = append(waits, waits[k-1]+arr[k]-arr[k-1]-lk)
		}
		if len(arr) >= 3 {
			w.Env.Probe("c17-cache-attempts>=3")
		}
		vs = append(vs, w.checkStream(stream{name: "scenario " + scen + ", CacheRegions attempts (gaps net of the lookup timeout)", times: waits, free: 0})...)
	}
	if scen == "dial-blackhole" {
		// per address, the dials that ran into the establisher's deadline: a dial
		// lasts as long as the simulated network says (DoneAt - At), the rest of
		// a gap is the wait, and the waits follow the schedule from the first one
		byAddr := map[string][]*DialRec{}
		var addrs []string
		for _, d := range w.Env.Dials {
			if d.Err != "" && d.DoneAt-d.At >= ms(w.Plan.Client.LookupMS) {
				if byAddr[d.Addr] == nil {
					addrs = append(addrs, d.Addr)
				}
				byAddr[d.Addr] = append(byAddr[d.Addr], d)
			}
		}
		for _, a := range addrs {
			ds := byAddr[a]
			waits := []int64{0}
			for k := 1; k < len(ds); k++ {
				waits = append(waits, waits[k-1]+int64(ds[k].At-ds[k-1].DoneAt))
			}
			if len(ds) >= 4 {
				w.Env.Probe("c17-blackhole-dials>=4")
			}
			vs = append(vs, w.checkStream(stream{name: "scenario " + scen + ", dials of " + a + " that ran into the lookup timeout (gaps net of the dials' duration)", times: waits, free: 0})...)
		}
	}
	// (4) hot loop: the run consumed its step budget while fake time stood still
	if n := w.Env.MaxInstantSteps; n > 40000 {
		vs = append(vs, w.viol("C17", "hot-loop", "scenario %s: %d consecutive scheduler steps were taken without the simulated clock advancing (%d requests executed in the run): retries are not separated by waits", scen, n, len(c.Execs)))
	} else if w.Env.Step >= w.Env.Knobs.MaxSteps-1 && w.Env.Now() < w.Env.Knobs.MaxFake/4 {
		vs = append(vs, w.viol("C17", "hot-loop", "scenario %s: %d scheduler steps were consumed in %v of simulated time (%d requests executed): retries are not separated by waits", scen, w.Env.Step, w.Env.Now(), len(c.Execs)))
	}
	return vs
}

// C17 (b): the back-off function itself, on the fake clock.
func runC17fn(p *Plan, keep bool) *Outcome {
	out := &Outcome{Profile: "c17fn", Seed: p.Seed, Nontrivial: true, Extra: map[string]int{}}
	pan := simrt.Run(p.Seed, true, func() {
		e := NewEnv(p.Seed, hb.NewCluster(1))
		e.Begin()
		sched := backoffSchedule(24)
		r := rng.New(p.Seed)
		done := false
		add := func(format string, a ...any) {
			out.Violations = append(out.Violations, Violation{Prop: "C17", Oracle: "backoff-function", Msg: fmt.Sprintf(format, a...)})
		}
		simrt.Go("caller", func() {
			defer func() { done = true }()
			for i := 0; i+1 < len(sched); i++ {
				t0 := time.Now()
				next, err := gohbase.VerifBackoff(context.Background(), sched[i])
				el := time.Since(t0)
				if err != nil || next != sched[i+1] || el != sched[i] {
					add("back-off(%v) returned (%v, %v) after %v; the schedule says next=%v after exactly %v", sched[i], next, err, el, sched[i+1], sched[i])
					return
				}
				out.Extra["schedule_points_checked"]++
			}
			// a wait ends early only through cancellation
			for k := 0; k < 6; k++ {
				d := sched[r.Intn(len(sched))]
				cut := time.Duration(r.Intn(int(d)))
				ctx, cancel := context.WithTimeout(context.Background(), cut)
				t0 := time.Now()
				_, err := gohbase.VerifBackoff(ctx, d)
				el := time.Since(t0)
				cancel()
				if cut == 0 {
					continue
				}
				if err == nil || el != cut {
					add("back-off(%v) with a context ending after %v returned err=%v after %v", d, cut, err, el)
					return
				}
				out.Extra["cancellations_checked"]++
			}
		})
		e.Knobs.MaxIdle = time.Hour
		e.Loop(func() bool { return done })
		out.Steps, out.FakeNS, out.Digest, out.NEv = e.Step, int64(e.Now()), e.Digest(), e.NEv
		out.Stats = e.Stats
		out.Reason = "done"
		simrt.Free()
	})
	if pan != nil {
		out.Panic = fmt.Sprint(pan)
	}
	return out
}

func init() {
	register(&Profile{Name: "c17", Prop: "C17", Generate: genC17,
		Setup: func(w *World) {
			if w.Plan.Scenario != "meta-rows-bad" {
				return
			}
			// C08 over stale meta data: the newest region wins, whatever meta says
			w.Env.Invariant = func() error {
				if w.Env.Step%8 != 0 {
					return nil
				}
				if err := w.NewestWins(); err != nil {
					w.pending = append(w.pending, w.viol("C08", "older-replaced-newer", "%v", err))
					return errStop
				}
				return nil
			}
		},
		Check:      func(w *World, reason string) []Violation { return append(w.pending, w.checkC17()...) },
		Nontrivial: func(w *World) bool { return w.Env.Stats.FaultsFired > 0 && len(w.Env.C.Execs) > 5 },
	})
	register(&Profile{Name: "c17fn", Prop: "C17", Custom: runC17fn,
		Generate: func(seed uint64, r *rng.Rand) *Plan { return &Plan{Profile: "c17fn", Seed: seed} }})
}

var _ = strings.Contains
