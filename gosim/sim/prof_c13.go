package sim

import (
	"fmt"
	"strings"
	"time"

	"gosim/hb"
	"gosim/rng"

	simrt "github.com/tsuna/gohbase/verifsimrt"
)

// C13 — cancellation is honoured promptly in every state.
//
// From the instant a context ends the scheduler is restricted to running
// goroutines (no time advance, no network delivery, no server execution)
// until nothing is runnable; by then the API call must have returned.

func genC13(seed uint64, r *rng.Rand) *Plan {
	g := &Gen{R: r}
	p := &Plan{Profile: "c13", Seed: seed}
	p.Layout = g.Layout(LayoutOpts{MaxServers: 3, MaxTables: 1, MaxRegions: 4, KeyLen: 3, OneTable: true})
	ts := &p.Layout.Tables[0]
	g.PreloadRows(ts, g.R.Range(0, 10), 3)
	p.Client = g.SwarmClient()
	p.Client.ReadTimeoutMS = []int{1000, 30000}[g.R.Intn(2)]
	p.Sched = g.SwarmSched()
	p.Sched.MaxFake = 15 * time.Minute
	nt := g.R.Range(1, 3)
	kinds := []string{"get", "put", "inc", "get"}
	for t := 0; t < nt; t++ {
		var ops []Op
		n := g.R.Range(1, 4)
		for i := 0; i < n; i++ {
			switch {
			case g.R.Chance(0.3):
				b := g.batchOf(ts, 6, []string{"get", "put", "inc"})
				if g.R.Chance(0.5) {
					for j := range b.Batch {
						if g.R.Chance(0.6) {
							b.Batch[j].Ctx.Kind = "own"
						}
					}
				}
				ops = append(ops, b)
			case g.R.Chance(0.2):
				o := g.scanOp(ts)
				o.PauseMS = g.R.Range(0, 50)
				ops = append(ops, o)
			default:
				ops = append(ops, g.SingleOp(ts.Name, g.KeyNear(ts.Splits, 3), kinds))
			}
			if g.R.Chance(0.25) {
				ops[len(ops)-1].Ctx = CtxSpec{Kind: "timeout", MS: g.R.Range(1, 20000)}
			}
		}
		p.Tasks = append(p.Tasks, Task{Ops: ops})
	}
	// the wait state: one persistent condition, from the start or after some progress
	at := 0
	if g.R.Chance(0.6) {
		at = g.R.Range(1, 12)
	}
	switch g.R.Intn(9) {
	case 7:
		// a server that stops reading: writes block once the window is full
		p.Faults = append(p.Faults, &Fault{On: "exec", N: at, Act: "stall", Server: g.R.Intn(p.Layout.Servers), Count: []int{0, 16, 300, 5000}[g.R.Intn(4)]})
		if g.R.Chance(0.6) {
			// busy send queue: the writer goroutine is stuck in Write with one
			// multi-request while further batchable calls queue up behind it
			p.Layout.Servers, p.Layout.Meta, p.Layout.Master = 1, 0, 0
			for i := range p.Layout.Tables {
				p.Layout.Tables[i].First = 0
			}
			p.Faults[len(p.Faults)-1].Server = 0
			p.Faults[len(p.Faults)-1].Count = []int{0, 16, 60}[g.R.Intn(3)]
			p.Client.QueueSize = []int{2, 3, 10}[g.R.Intn(3)]
			p.Client.FlushMS = []int{1, 20}[g.R.Intn(2)]
			p.Tasks = nil
			nt = g.R.Range(3, 5)
			for t := 0; t < nt; t++ {
				var ops []Op
				for i, n := 0, g.R.Range(2, 4); i < n; i++ {
					o := g.SingleOp(ts.Name, g.KeyNear(ts.Splits, 3), []string{"get", "put", "inc"})
					o.SkipBatch = false
					ops = append(ops, o)
				}
				p.Tasks = append(p.Tasks, Task{Ops: ops})
			}
			for t := 0; t < nt; t++ {
				p.Faults = append(p.Faults, &Fault{Act: "cancel", Task: t, Op: -1, On: "ms", N: g.R.Range(1, 20000)})
			}
		}
	case 8:
		// connections take an hour to establish
		p.Faults = append(p.Faults, &Fault{On: "exec", N: at, Act: "dialdelay", Dur: 3600000})
		p.Faults = append(p.Faults, &Fault{On: "exec", N: at, Act: "reset", Server: g.R.Intn(p.Layout.Servers)})
	case 0:
		p.Faults = append(p.Faults, &Fault{On: "exec", N: at, Act: "zkdelay", Dur: 3600000})
		p.Faults = append(p.Faults, &Fault{On: "exec", N: at, Act: "reset", Server: p.Layout.Meta})
	case 1:
		p.Faults = append(p.Faults, &Fault{On: "exec", N: at, Act: "silent", Server: p.Layout.Meta})
	case 2:
		p.Faults = append(p.Faults, &Fault{On: "exec", N: at, Act: "opening", Table: ts.Name, Region: g.R.Intn(4)})
	case 3:
		p.Faults = append(p.Faults, &Fault{On: "exec", N: at, Act: "rule", Rule: &hb.Rule{Class: hb.RetryableClasses[g.R.Intn(len(hb.RetryableClasses))], Count: -1, Server: -1,
			Level: []string{"action", "region", "call"}[g.R.Intn(3)]}})
	case 4:
		p.Faults = append(p.Faults, &Fault{On: "exec", N: at, Act: "silent", Server: g.R.Intn(p.Layout.Servers)})
	case 5:
		p.Faults = append(p.Faults, &Fault{On: "exec", N: at, Act: "rule", Rule: &hb.Rule{Class: hb.NotServingClasses[g.R.Intn(2)], Count: -1, Server: -1, Kind: "Any", Table: ts.Name}})
	case 6:
		p.Faults = append(p.Faults, &Fault{On: "exec", N: at, Act: "zkfail", Count: -1})
		p.Faults = append(p.Faults, &Fault{On: "exec", N: at, Act: "reset", Server: p.Layout.Meta})
	}
	// cancellations of whatever each task is doing, at PRNG-chosen instants
	nc := g.R.Range(1, 3)
	for i := 0; i < nc; i++ {
		f := &Fault{Act: "cancel", Task: g.R.Intn(nt), Op: -1}
		if g.R.Chance(0.5) {
			f.On, f.N = "ms", g.R.Range(1, 90000)
		} else {
			f.On, f.N = "step", g.R.Range(50, 3000)
		}
		if g.R.Chance(0.4) {
			f.Slot = g.R.Range(1, 6)
		}
		p.Faults = append(p.Faults, f)
	}
	return p
}

func waitState(site string) string {
	switch {
	case strings.Contains(site, "simnet:Write"):
		return "blocked-in-write"
	case strings.Contains(site, "simnet:Dial"):
		return "dialling"
	case strings.Contains(site, "getRegionAndClientForRPC"):
		return "waiting-for-region"
	case strings.Contains(site, "sleepAndIncreaseBackoff"):
		return "retry-backoff"
	case strings.Contains(site, "sendBlocking"):
		return "waiting-for-response"
	case strings.Contains(site, "waitForCompletion"):
		return "batch-waiting-for-results"
	case strings.Contains(site, "QueueBatch"), strings.Contains(site, "QueueRPC"):
		return "handing-to-writer"
	case strings.Contains(site, "zkLookup"), strings.Contains(site, "simzk"):
		return "zookeeper"
	case strings.Contains(site, "task:scan"), strings.Contains(site, "scanner.go:Next"):
		return "between-scanner-fetches"
	case strings.Contains(site, "task:"):
		return "not-in-api"
	}
	return "other:" + site
}

// ctxEnded reports the records whose context (or a slot's own context) has
// ended while the call is still in progress and that were not checked yet.
func (w *World) ctxEnded() *OpRec {
	for _, t := range w.Recs {
		for _, r := range t {
			if !r.Started || r.Done || r.QuietChecked || r.ctx == nil {
				continue
			}
			if r.ctx.Err() != nil {
				return r
			}
			for i, c := range r.slotCtx {
				if c != nil && c != r.ctx && c.Err() != nil && r.Op.Batch[i].Ctx.Kind != "" && !r.Op.Batch[i].Ctx.Pre {
					return r
				}
			}
		}
	}
	return nil
}

func driveC13(w *World) string {
	e := w.Env
	var cur *OpRec
	e.OnStep = func() {
		if e.Quiet || cur != nil {
			return
		}
		if r := w.ctxEnded(); r != nil {
			cur = r
			r.QuietChecked = true
			if g := w.TaskG[r.Task]; g != nil {
				r.CancelSite = g.Site
			}
			if r.CancelStep == 0 {
				r.CancelStep, r.CancelT = e.Step, e.Now()
			}
			e.Quiet = true
			e.Probe("wait-state/" + waitState(r.CancelSite))
			e.Ev("quiet-begin task%d op%d at %s", r.Task, r.Idx, r.CancelSite)
		}
	}
	for {
		reason := e.Loop(w.AllDone)
		if reason == "steps" && e.Quiet && cur != nil && !cur.Done {
			// goroutines kept running without ever coming to rest: the call spins
			where := "?"
			if g := w.TaskG[cur.Task]; g != nil {
				where = g.Site
			}
			w.pending = append(w.pending, w.viol("C13", "not-prompt", "task %d op %d (%s): its context ended at step %d while %s, and the call has not returned after %d further scheduler steps without time or network: it spins (last seen at %s)",
				cur.Task, cur.Idx, cur.Op.Kind, cur.CancelStep, waitState(cur.CancelSite), e.Step-cur.CancelStep, where))
		}
		if reason != "quiet-idle" {
			if e.Quiet && cur != nil && cur.Done {
				// finished together with the whole workload
				e.Quiet = false
			}
			return reason
		}
		// nothing runnable any more, without time and without network
		r := cur
		if !r.Done {
			where := "?"
			if g := w.TaskG[r.Task]; g != nil {
				where = g.Site
			}
			what, oracle := "its context", "not-prompt"
			if r.ctx.Err() == nil {
				what, oracle = "the context of one of its calls (distinct from the batch context)", "batch-ignores-call-context"
			}
			// where the call is stuck now (not where it was when the context
			// ended: it may have run on to the writer lock since). Stuck in
			// conn.Write, or on the writer lock while its holder is stuck in
			// conn.Write, is the known finding S6.
			stuck := waitState(where)
			if strings.Contains(where, "region/client.go:send:lock") {
				stuck = "other:" + where
				for _, g := range simrt.Live() {
					if strings.HasPrefix(g.Site, "simnet:Write") && !g.Parked() {
						stuck = "blocked-in-write"
					}
				}
			}
			w.pending = append(w.pending, w.viol("C13", oracle, "task %d op %d (%s): %s ended at step %d while %s, but the call has not returned although every goroutine ran until nothing was runnable (no time, no network needed): now %s, blocked at %s",
				r.Task, r.Idx, r.Op.Kind, what, r.CancelStep, waitState(r.CancelSite), stuck, where))
			// release it for the rest of the run
			r.cancel()
		}
		cur = nil
		e.Quiet = false
		e.Ev("quiet-end")
	}
}

func (w *World) checkC13() []Violation {
	vs := w.pending
	for _, t := range w.Recs {
		for _, r := range t {
			if !r.Done || !r.QuietChecked {
				continue
			}
			where := fmt.Sprintf("task %d op %d (%s)", r.Task, r.Idx, r.Op.Kind)
			switch r.Op.Kind {
			case "batch":
				if r.AllOK {
					// every call may have completed just before
					continue
				}
				batchEnded := r.ctx.Err() != nil
				for i := range r.Slots {
					s := &r.Slots[i]
					own := r.slotCtx[i] != nil && r.slotCtx[i].Err() != nil
					if (batchEnded || own) && s.Err == nil && !s.HasMsg {
						vs = append(vs, w.viol("C13", "batch-slot", "%s slot %d: context ended but the slot holds neither a response nor an error", where, i))
					}
				}
			case "scan":
			default:
				if r.Slot.Err == nil {
					continue // completed just before the cancellation
				}
				if r.Slot.ErrClass != "ctx" && r.ctx.Err() != nil && r.Slot.ErrClass != "app" && r.Slot.ErrClass != "tablenotfound" {
					vs = append(vs, w.viol("C13", "error-value", "%s: returned %q after its context ended, expected the context's error", where, firstLine(r.Slot.ErrStr)))
				}
			}
		}
	}
	return vs
}

func init() {
	register(&Profile{Name: "c13", Prop: "C13", Generate: genC13, Drive: driveC13,
		After: func(w *World, reason string) {},
		Check: func(w *World, reason string) []Violation { return w.checkC13() },
		Nontrivial: func(w *World) bool {
			for _, t := range w.Recs {
				for _, r := range t {
					if r.QuietChecked && !strings.HasPrefix(waitState(r.CancelSite), "not-in-api") {
						return true
					}
				}
			}
			return false
		},
	})
}
