package sim

import (
	"bytes"
	"encoding/binary"
	"fmt"
	"math"
	"sort"

	"gosim/hb"

	"github.com/tsuna/gohbase/pb"
	"google.golang.org/protobuf/proto"
)

// Wire-content oracle (C05): every decoded request that carries a workload
// nonce is normalised and compared with the operation the generator built.

func (w *World) opIndex() map[uint64]*Op {
	m := map[uint64]*Op{}
	for t := range w.Plan.Tasks {
		for i := range w.Plan.Tasks[t].Ops {
			op := &w.Plan.Tasks[t].Ops[i]
			if op.Nonce != 0 {
				m[op.Nonce] = op
			}
			for j := range op.Batch {
				if op.Batch[j].Nonce != 0 {
					m[op.Batch[j].Nonce] = &op.Batch[j]
				}
			}
		}
	}
	return m
}

func colsString(cols []*pb.Column) string {
	var ss []string
	for _, c := range cols {
		var qs []string
		for _, q := range c.GetQualifier() {
			qs = append(qs, string(q))
		}
		sort.Strings(qs)
		ss = append(ss, fmt.Sprintf("%q:%q", c.GetFamily(), qs))
	}
	sort.Strings(ss)
	return fmt.Sprint(ss)
}

func famsString(f map[string][]string) string {
	var ss []string
	for fam, qs := range f {
		q2 := append([]string(nil), qs...)
		sort.Strings(q2)
		ss = append(ss, fmt.Sprintf("%q:%q", fam, q2))
	}
	sort.Strings(ss)
	return fmt.Sprint(ss)
}

func cellKey(c hb.Cell) string {
	return fmt.Sprintf("%q:%q ts=%d type=%d val=%x", c.Fam, c.Qual, c.TS, c.Type, c.Value)
}

// expectedCells is the set of cells an operation must put on the wire.
func expectedCells(op *Op) []string {
	const latest = uint64(math.MaxInt64)
	var out []string
	ts := latest
	if op.TS != 0 {
		ts = op.TS
	}
	switch op.Kind {
	case "put", "app", "cas":
		for f, qs := range op.Vals {
			for q, v := range qs {
				out = append(out, cellKey(hb.Cell{Fam: []byte(f), Qual: []byte(q), TS: ts, Type: hb.TypePut, Value: nonceVal(op.Nonce, v)}))
			}
		}
	case "inc":
		for f, qs := range op.Vals {
			for q := range qs {
				out = append(out, cellKey(hb.Cell{Fam: []byte(f), Qual: []byte(q), TS: ts, Type: hb.TypePut, Value: binary.BigEndian.AppendUint64(nil, op.Nonce)}))
			}
		}
	case "del":
		dts := op.Nonce
		if op.NoTS {
			dts = latest
		}
		for f, qs := range op.Vals {
			if len(qs) == 0 {
				t := byte(hb.TypeDeleteFamily)
				if op.DelOne {
					t = hb.TypeDeleteFamilyVersion
				}
				out = append(out, cellKey(hb.Cell{Fam: []byte(f), Qual: nil, TS: dts, Type: t}))
				continue
			}
			for q := range qs {
				t := byte(hb.TypeDeleteColumn)
				if op.DelOne {
					t = hb.TypeDelete
				}
				out = append(out, cellKey(hb.Cell{Fam: []byte(f), Qual: []byte(q), TS: dts, Type: t}))
			}
		}
	}
	sort.Strings(out)
	return out
}

// trMismatch compares the time range on the wire with the one the caller set.
func trMismatch(tr *pb.TimeRange, op *Op) string {
	switch op.TR {
	case "to":
		if tr == nil || tr.From != nil && tr.GetFrom() != 0 || tr.To == nil || tr.GetTo() != op.Nonce {
			return fmt.Sprintf("time range %v, want [unset or 0, %d)", tr, op.Nonce)
		}
	case "none":
		if tr != nil && (tr.From != nil && tr.GetFrom() != 0 || tr.To != nil) {
			return fmt.Sprintf("time range %v, the caller set none", tr)
		}
	default:
		if tr == nil || tr.GetFrom() != op.Nonce || tr.To != nil {
			return fmt.Sprintf("time range %v, want [%d, unset)", tr, op.Nonce)
		}
	}
	return ""
}

// WireCheck compares one executed action with its operation.
func (w *World) WireCheck(e *hb.Exec, ops map[uint64]*Op) []string {
	var bad []string
	f := func(format string, a ...any) { bad = append(bad, fmt.Sprintf(format, a...)) }
	if e.Nonce == 0 {
		return nil
	}
	op := ops[e.Nonce]
	if op == nil {
		f("request carries nonce %d that no operation of the workload has", e.Nonce)
		return bad
	}
	single := e.Multi == 0
	wantMethod := map[string]string{"get": "Get", "put": "Mutate", "del": "Mutate", "app": "Mutate", "inc": "Mutate", "cas": "Mutate", "scan": "Scan"}[op.Kind]
	if single {
		if got := e.Header.GetMethodName(); got != wantMethod {
			f("method name %q for a %s", got, op.Kind)
		}
		// the close request the scanner builds itself carries no priority: it
		// is not an operation the caller built, so it is not judged here
		if got := e.Header.GetPriority(); got != op.Prio && e.Kind != "ScanClose" {
			f("priority %d in the header, caller set %d", got, op.Prio)
		}
	} else if e.Header.GetMethodName() != "Multi" {
		f("method name %q for a multi request", e.Header.GetMethodName())
	}
	if e.Table != "" && e.Table != "?" && e.Table != op.Table {
		f("sent to a region of table %q, operation is for table %q", e.Table, op.Table)
	}
	switch {
	case e.ReqGet != nil:
		g := e.ReqGet
		if op.Kind != "get" {
			f("a Get on the wire for a %s operation", op.Kind)
			break
		}
		if !bytes.Equal(g.GetRow(), op.Key) {
			f("row %q, want %q", g.GetRow(), op.Key)
		}
		if colsString(g.GetColumn()) != famsString(op.Fams) {
			f("columns %s, want %s", colsString(g.GetColumn()), famsString(op.Fams))
		}
		if m := trMismatch(g.TimeRange, op); m != "" {
			f("%s", m)
		}
		if g.GetExistenceOnly() != op.Exists {
			f("existence_only=%v, want %v", g.GetExistenceOnly(), op.Exists)
		}
		wantMV := uint32(0)
		if op.MaxVer > 1 {
			wantMV = op.MaxVer
		}
		if (g.MaxVersions == nil && wantMV != 0) || (g.MaxVersions != nil && g.GetMaxVersions() != op.MaxVer) {
			f("max_versions %v, want %d", g.MaxVersions, op.MaxVer)
		}
		if g.Filter != nil || g.StoreLimit != nil || g.StoreOffset != nil || g.CacheBlocks != nil || g.Consistency != nil {
			f("options set that the caller did not set: filter=%v store_limit=%v store_offset=%v cache_blocks=%v consistency=%v", g.Filter, g.StoreLimit, g.StoreOffset, g.CacheBlocks, g.Consistency)
		}
	case e.ReqMut != nil:
		m := e.ReqMut
		wantType := map[string]pb.MutationProto_MutationType{"put": pb.MutationProto_PUT, "cas": pb.MutationProto_PUT, "del": pb.MutationProto_DELETE,
			"app": pb.MutationProto_APPEND, "inc": pb.MutationProto_INCREMENT}
		wt, ok := wantType[op.Kind]
		if !ok {
			f("a Mutate on the wire for a %s operation", op.Kind)
			break
		}
		if m.GetMutateType() != wt {
			f("mutate type %v, want %v", m.GetMutateType(), wt)
		}
		if !bytes.Equal(m.GetRow(), op.Key) {
			f("row %q, want %q", m.GetRow(), op.Key)
		}
		if int(m.GetDurability()) != op.Dur {
			f("durability %v, want %d", m.GetDurability(), op.Dur)
		}
		switch {
		case op.Kind == "del" && op.NoTS:
			if m.Timestamp != nil {
				f("delete timestamp %d set, caller set none", m.GetTimestamp())
			}
		case op.Kind == "del":
			if m.Timestamp == nil || m.GetTimestamp() != op.Nonce {
				f("delete timestamp %v, want %d", m.Timestamp, op.Nonce)
			}
		case op.TS != 0:
			if m.Timestamp == nil || m.GetTimestamp() != op.TS {
				f("timestamp %v, want %d", m.Timestamp, op.TS)
			}
		default:
			if m.Timestamp != nil {
				f("timestamp %d set, caller asked for latest", m.GetTimestamp())
			}
		}
		var ttl []byte
		for _, a := range m.GetAttribute() {
			if a.GetName() == "_ttl" {
				ttl = a.GetValue()
			} else {
				f("unexpected attribute %q", a.GetName())
			}
		}
		if op.TTLMS != 0 {
			if len(ttl) != 8 || binary.BigEndian.Uint64(ttl) != uint64(op.TTLMS) {
				f("ttl attribute %x, want %d ms", ttl, op.TTLMS)
			}
		} else if ttl != nil {
			f("ttl attribute %x set, caller set none", ttl)
		}
		var got []string
		for _, c := range e.ReqCells {
			got = append(got, cellKey(c))
		}
		sort.Strings(got)
		want := expectedCells(op)
		if fmt.Sprint(got) != fmt.Sprint(want) {
			f("cells on the wire %v, operation has %v", got, want)
		}
		if op.Kind == "cas" {
			c := e.ReqCond
			if c == nil {
				f("check-and-put without condition")
				break
			}
			bc := &pb.BinaryComparator{}
			var cv []byte
			if c.Comparator != nil && proto.Unmarshal(c.Comparator.GetSerializedComparator(), bc) == nil && bc.Comparable != nil {
				cv = bc.Comparable.GetValue()
			}
			if !bytes.Equal(c.GetRow(), op.Key) || string(c.GetFamily()) != op.CasFam || string(c.GetQualifier()) != op.CasQual ||
				c.GetCompareType() != pb.CompareType_EQUAL || !bytes.Equal(cv, op.CasVal) ||
				c.GetComparator().GetName() != "org.apache.hadoop.hbase.filter.BinaryComparator" {
				f("condition %v does not match row=%q %s:%s == %q", c, op.Key, op.CasFam, op.CasQual, op.CasVal)
			}
		} else if e.ReqCond != nil {
			f("condition on a plain mutation")
		}
	case e.ReqScan != nil && e.Kind == "ScanOpen":
		sr := e.ReqScan
		s := sr.GetScan()
		if op.Kind != "scan" {
			f("a Scan on the wire for a %s operation", op.Kind)
			break
		}
		if s.GetReversed() != op.Reversed {
			f("reversed=%v, want %v", s.GetReversed(), op.Reversed)
		}
		if !bytes.Equal(s.GetStopRow(), op.Stop) {
			f("stop row %q, want %q", s.GetStopRow(), op.Stop)
		}
		wantRows := uint32(math.MaxInt32)
		if op.NumRows > 0 {
			wantRows = op.NumRows
		}
		if sr.GetNumberOfRows() != wantRows {
			f("number_of_rows %d, want %d", sr.GetNumberOfRows(), wantRows)
		}
		if !sr.GetClientHandlesPartials() || !sr.GetClientHandlesHeartbeats() {
			f("client_handles_partials/heartbeats not set")
		}
		if sr.GetCloseScanner() != op.ScanClose || sr.GetRenew() {
			f("close_scanner=%v renew=%v on an open request", sr.GetCloseScanner(), sr.GetRenew())
		}
		if colsString(s.GetColumn()) != famsString(op.Fams) {
			f("columns %s, want %s", colsString(s.GetColumn()), famsString(op.Fams))
		}
		if m := trMismatch(s.TimeRange, op); m != "" {
			f("%s", m)
		}
		switch {
		case !op.Filter && s.Filter != nil:
			f("filter %v set, the caller set none", s.Filter)
		case op.Filter:
			pf := &pb.PageFilter{}
			if s.Filter == nil || s.Filter.GetName() != "org.apache.hadoop.hbase.filter.PageFilter" ||
				proto.Unmarshal(s.Filter.GetSerializedFilter(), pf) != nil || pf.GetPageSize() != pageAll {
				f("filter %v, want a PageFilter of %d rows", s.Filter, pageAll)
			}
		}
		if s.GetMaxResultSize() != 2097152 {
			f("max_result_size %d", s.GetMaxResultSize())
		}
	case e.ReqScan != nil:
		sr := e.ReqScan
		if sr.Scan != nil {
			f("continuation request carries a scan specification")
		}
		if e.Kind == "ScanNext" {
			wantRows := uint32(math.MaxInt32)
			if op.NumRows > 0 {
				wantRows = op.NumRows
			}
			if sr.GetNumberOfRows() != wantRows {
				f("number_of_rows %d on continuation, want %d", sr.GetNumberOfRows(), wantRows)
			}
		}
	}
	return bad
}
