package sim

import (
	"bytes"
	"fmt"
	"sort"
	"strings"

	"gosim/hb"

	"github.com/tsuna/gohbase"
	simrt "github.com/tsuna/gohbase/verifsimrt"
)

func (w *World) viol(prop, oracle, format string, a ...any) Violation {
	return Violation{Prop: prop, Oracle: oracle, Msg: fmt.Sprintf(format, a...), Step: w.Env.Step, FakeNS: int64(w.Env.Now())}
}

func (w *World) clientAny() any {
	if w.Client != nil {
		return w.Client
	}
	return w.Admin
}

// ---- C08 monitor: the key->region cache never holds overlapping regions ----

func rangesOverlap(aStart, aStop, bStart, bStop string) bool {
	return (bStop == "" || aStart < bStop) && (aStop == "" || bStart < aStop)
}

// CacheInvariant checks the C08 invariants on the client's caches.
func (w *World) CacheInvariant() error {
	if w.Client == nil {
		return nil
	}
	st, ok := gohbase.VerifSnapshot(w.Client)
	if !ok {
		return nil
	}
	for i, a := range st.Regions {
		if a.Dead {
			return fmt.Errorf("C08 cache holds dead region %q", a.Name)
		}
		for _, b := range st.Regions[i+1:] {
			if a.Table == b.Table && rangesOverlap(a.Start, a.Stop, b.Start, b.Stop) {
				return fmt.Errorf("C08 cache holds overlapping regions %q [%q,%q) and %q [%q,%q)", a.Name, a.Start, a.Stop, b.Name, b.Start, b.Stop)
			}
		}
		if i > 0 {
			p := st.Regions[i-1]
			if c := cmpTuple(p, a); c >= 0 {
				return fmt.Errorf("C08/C16 tree order %q before %q contradicts (table,start,id) order", p.Name, a.Name)
			}
		}
	}
	seen := map[string]bool{}
	for _, c := range st.Conns {
		if seen[strings.ToLower(c.Addr)] {
			return fmt.Errorf("C20 connection cache holds two entries for %s", c.Addr)
		}
		seen[strings.ToLower(c.Addr)] = true
	}
	return nil
}

// CacheSettled is checked at quiescence after stabilisation (nothing is being
// established, every call has returned): a region that is still in the key
// cache, alive and marked available is usable as it stands - it has a region
// client (which may have died unnoticed; that is found out on use). A region
// that lost its client while it stayed cached as "available" was changed behind
// the cache's back: the next request for it finds it unusable and has to
// re-establish it.
func (w *World) CacheSettled() error {
	if w.Client == nil || w.ClosedStep != 0 {
		return nil
	}
	st, ok := gohbase.VerifSnapshot(w.Client)
	if !ok {
		return nil
	}
	for _, r := range st.Regions {
		if r.Dead || r.Unavailable {
			continue
		}
		if r.ClientAddr == "" {
			return fmt.Errorf("cached region %q is alive and marked available but has no region client", r.Name)
		}
	}
	return nil
}

// NewestWins is a monitor for runs in which hbase:meta hands out stale
// descriptions: once a region of some age has been cached for a start key, the
// cache never goes back to an older region at that key (regions are only ever
// replaced by newer ones; the tables of these runs are never dropped).
func (w *World) NewestWins() error {
	if w.Client == nil {
		return nil
	}
	st, ok := gohbase.VerifSnapshot(w.Client)
	if !ok {
		return nil
	}
	if w.idHigh == nil {
		w.idHigh = map[string][2]string{}
		w.idHighN = map[string]uint64{}
	}
	for _, r := range st.Regions {
		if r.Table == "hbase:meta" {
			continue
		}
		k := r.Table + "\x00" + r.Start
		if prev, ok := w.idHighN[k]; ok && prev > r.ID {
			return fmt.Errorf("C08 the cache holds region %q (id %d) at start key %q of table %q, where it held the newer region %q (id %d) before: an older region replaced a newer one", r.Name, r.ID, r.Start, r.Table, w.idHigh[k][0], prev)
		}
		if w.idHighN[k] < r.ID || w.idHigh[k][0] == "" {
			w.idHighN[k] = r.ID
			w.idHigh[k] = [2]string{r.Name, ""}
		}
	}
	return nil
}

func cmpTuple(a, b gohbase.VerifRegion) int {
	if a.Table != b.Table {
		if a.Table < b.Table {
			return -1
		}
		return 1
	}
	if a.Start != b.Start {
		if a.Start < b.Start {
			return -1
		}
		return 1
	}
	ra, rb := a.Name[len(a.Table)+1+len(a.Start)+1:], b.Name[len(b.Table)+1+len(b.Start)+1:]
	if ra < rb {
		return -1
	} else if ra > rb {
		return 1
	}
	return 0
}

// ---- C01 (b): cache lookup versus brute force ----

// CacheLookupCheck compares getRegionFromCache with a linear scan for a set
// of probe keys per table.
func (w *World) CacheLookupCheck(keys map[string][][]byte) []Violation {
	var vs []Violation
	if w.Client == nil {
		return nil
	}
	st, ok := gohbase.VerifSnapshot(w.Client)
	if !ok {
		return nil
	}
	for table, ks := range keys {
		for _, k := range ks {
			var want *gohbase.VerifRegion
			for i := range st.Regions {
				r := &st.Regions[i]
				if r.Table == table && string(k) >= r.Start && (r.Stop == "" || string(k) < r.Stop) {
					want = r
				}
			}
			got := gohbase.VerifLookupCache(w.Client, []byte(table), k)
			switch {
			case want == nil && got != nil:
				vs = append(vs, w.viol("C01", "cache-vs-bruteforce", "lookup(%q,%q) returned %q but no cached region contains the key", table, k, got.Name()))
			case want != nil && got == nil:
				vs = append(vs, w.viol("C01", "cache-vs-bruteforce", "lookup(%q,%q) returned nothing but cached region %q contains the key", table, k, want.Name))
			case want != nil && string(got.Name()) != want.Name:
				vs = append(vs, w.viol("C01", "cache-vs-bruteforce", "lookup(%q,%q) returned %q, brute force says %q", table, k, got.Name(), want.Name))
			}
		}
	}
	return vs
}

// ---- C02: attribution of results to executions ----

func execIndex(c *hb.Cluster) map[uint64]*hb.Exec {
	m := make(map[uint64]*hb.Exec, len(c.Execs))
	for _, e := range c.Execs {
		m[e.Seq] = e
	}
	return m
}

func execsByNonce(c *hb.Cluster) map[uint64][]*hb.Exec {
	m := map[uint64][]*hb.Exec{}
	for _, e := range c.Execs {
		if e.Nonce != 0 {
			m[e.Nonce] = append(m[e.Nonce], e)
		}
	}
	return m
}

func sameCells(got []RCell, want []hb.Cell) bool {
	if len(got) != len(want) {
		return false
	}
	for i := range got {
		g, x := got[i], want[i]
		if !bytes.Equal(g.Row, x.Row) || !bytes.Equal(g.Fam, x.Fam) || !bytes.Equal(g.Qual, x.Qual) || !bytes.Equal(g.Value, x.Value) || g.TS != x.TS {
			return false
		}
	}
	return true
}

// attributeSlot checks that a successful result is the payload of exactly one
// execution of the slot's own nonce. It returns "" if fine.
func attributeSlot(s *Slot, byNonce map[uint64][]*hb.Exec, bySeq map[uint64]*hb.Exec) string {
	return attributeSlotOp(s, nil, nil, byNonce, bySeq)
}

func attributeSlotOp(s *Slot, op *Op, c *hb.Cluster, byNonce map[uint64][]*hb.Exec, bySeq map[uint64]*hb.Exec) string {
	if s.Err != nil {
		if s.ErrClass == "app" || s.ErrClass == "retryable" || s.ErrClass == "notserving" {
			// exception text must carry the own nonce; an exception for a whole
			// region (nonce=0) must name a region that contains the key
			if i := strings.Index(s.ErrStr, " nonce=0 "); i >= 0 {
				j := strings.LastIndex(s.ErrStr[:i], " region=")
				if j < 0 || op == nil || c == nil {
					return ""
				}
				name := s.ErrStr[j+8 : i]
				if r := c.RegionByName(name); r == nil || r.Table != op.Table || !r.Contains(op.Key) {
					return fmt.Sprintf("region-level error for region %q delivered to nonce %d whose key %q is not in that region", name, s.Nonce, op.Key)
				}
				return ""
			}
			want := fmt.Sprintf("nonce=%d ", s.Nonce)
			if !bytes.Contains([]byte(s.ErrStr), []byte(want)) {
				return fmt.Sprintf("error delivered to nonce %d was produced for another request: %.200s", s.Nonce, s.ErrStr)
			}
		}
		return ""
	}
	if s.Kind == "scanreq" || s.Kind == "cache" || s.Kind == "sleep" {
		return ""
	}
	execs := byNonce[s.Nonce]
	if len(s.Cells) > 0 {
		seq := s.Cells[0].TS
		for _, c := range s.Cells {
			if c.TS != seq {
				return fmt.Sprintf("result for nonce %d mixes cells of executions %d and %d", s.Nonce, seq, c.TS)
			}
		}
		ex := bySeq[seq]
		if ex == nil {
			return fmt.Sprintf("result for nonce %d carries cells of unknown execution %d", s.Nonce, seq)
		}
		if ex.Nonce != s.Nonce {
			return fmt.Sprintf("caller of nonce %d received the response produced for nonce %d (execution %d)", s.Nonce, ex.Nonce, seq)
		}
		if !sameCells(s.Cells, ex.Cells) {
			return fmt.Sprintf("result for nonce %d differs from what execution %d produced: got %d cells, server sent %d", s.Nonce, seq, len(s.Cells), len(ex.Cells))
		}
		return ""
	}
	// zero cells: some successful execution of this nonce must have produced zero cells
	for _, ex := range execs {
		if ex.Applied && ex.Err == "" && len(ex.Cells) == 0 {
			return ""
		}
	}
	if len(execs) == 0 {
		return fmt.Sprintf("call with nonce %d reported success but no server ever executed it", s.Nonce)
	}
	return fmt.Sprintf("call with nonce %d got an empty result but its executions produced cells (%d cells in the first)", s.Nonce, len(execs[0].Cells))
}

// AttributionCheck runs attributeSlot over all completed operations.
func (w *World) AttributionCheck(prop string) []Violation {
	var vs []Violation
	byNonce, bySeq := execsByNonce(w.Env.C), execIndex(w.Env.C)
	for _, t := range w.Recs {
		for _, r := range t {
			if !r.Done {
				continue
			}
			switch r.Op.Kind {
			case "get", "put", "del", "app", "inc", "cas":
				s := r.Slot
				if r.Op.Kind == "inc" && s.Err == nil {
					// Increment returns only the value: check against executions
					ok := false
					for _, ex := range byNonce[s.Nonce] {
						if ex.Applied && len(ex.Cells) == 1 && len(ex.Cells[0].Value) == 8 &&
							int64(beUint64(ex.Cells[0].Value)) == r.IncVal {
							ok = true
						}
					}
					if !ok {
						vs = append(vs, w.viol(prop, "attribution", "increment nonce %d returned %d which no execution of it produced", s.Nonce, r.IncVal))
					}
					continue
				}
				if msg := attributeSlotOp(&s, r.Op, w.Env.C, byNonce, bySeq); msg != "" {
					vs = append(vs, w.viol(prop, "attribution", "task %d op %d (%s): %s", r.Task, r.Idx, r.Op.Kind, msg))
				}
			case "batch":
				for i := range r.Slots {
					if msg := attributeSlotOp(&r.Slots[i], &r.Op.Batch[i], w.Env.C, byNonce, bySeq); msg != "" {
						vs = append(vs, w.viol(prop, "attribution", "task %d op %d batch slot %d (%s): %s", r.Task, r.Idx, i, r.Slots[i].Kind, msg))
					}
				}
			}
		}
	}
	return vs
}

func beUint64(b []byte) uint64 {
	var v uint64
	for _, x := range b {
		v = v<<8 | uint64(x)
	}
	return v
}

// AllReturned reports operations that never returned.
func (w *World) AllReturned(prop, oracle string) []Violation {
	var vs []Violation
	if w.Env.Step >= w.Env.Knobs.MaxSteps-1 {
		// the step budget ran out: inconclusive for completion (a spin is
		// judged by the hot-loop oracles of C17 / C11, which look at fake time)
		return nil
	}
	for _, t := range w.Recs {
		for _, r := range t {
			if !r.Done {
				where := ""
				if g := w.TaskG[r.Task]; g != nil {
					where = g.Site
				}
				vs = append(vs, w.viol(prop, oracle, "task %d op %d (%s %q) never returned; task goroutine is at %s (started=%v)", r.Task, r.Idx, r.Op.Kind, r.Op.Key, where, r.Started))
				break
			}
		}
	}
	return vs
}

// ---- C20: dial log ----

// DialCheck verifies one dial per address unless earlier connections to it died.
func (w *World) DialCheck() []Violation {
	var vs []Violation
	e := w.Env
	byAddr := map[string][]*DialRec{}
	for _, d := range e.Dials {
		host := strings.ToLower(d.Addr) // one server, however its name is spelled
		for _, prev := range byAddr[host] {
			if prev.Conn == nil {
				continue // failed dial: justified
			}
			if len(prev.Conn.Death) == 0 && !(prev.Conn.IsClosed() && prev.Conn.ClosedStep <= d.Step && w.ClosedStep != 0) {
				vs = append(vs, w.viol("C20", "dial-log", "dial #%d to %s at step %d while connection #%d to the same address was healthy (no death-justifying event)", d.N, d.Addr, d.Step, prev.N))
			}
		}
		byAddr[host] = append(byAddr[host], d)
	}
	return vs
}

func sortedKeys[V any](m map[string]V) []string {
	ks := make([]string, 0, len(m))
	for k := range m {
		ks = append(ks, k)
	}
	sort.Strings(ks)
	return ks
}

// simrtLive returns (label, site) of the live managed goroutines.
func simrtLive() [][2]string {
	var out [][2]string
	for _, g := range simrt.Live() {
		out = append(out, [2]string{g.Label, g.Site})
	}
	return out
}
