package sim

import (
	"context"
	"fmt"
	"strings"
	"time"

	"gosim/hb"
	"gosim/rng"

	"github.com/tsuna/gohbase/compression"
	"github.com/tsuna/gohbase/hrpc"
	"github.com/tsuna/gohbase/region"
	simrt "github.com/tsuna/gohbase/verifsimrt"
)

// C03 (i): region-client harness. Drives region.NewClient directly: tasks
// queue single and batched calls, the connection fails at a swept position,
// and at quiescence every call must have been completed exactly once.

type rcCall struct {
	task, idx, slot int
	op              *Op
	call            hrpc.Call
	ctx             context.Context
	cancel          context.CancelFunc
	batchCtx        context.Context
	handed          bool // QueueRPC/QueueBatch returned
	handedStep      uint64
	afterFail       bool // handed over after the client had failed
	results         []hrpc.RPCResult
	consumedStep    uint64
}

type rcWorld struct {
	e       *Env
	p       *Plan
	rc      hrpc.RegionClient
	calls   []*rcCall
	byTask  map[[2]int][]*rcCall
	infos   map[string]hrpc.RegionInfo
	done    int
	dialErr error
	dialed  bool
}

func (w *rcWorld) regionFor(table string, key []byte) hrpc.RegionInfo {
	r := w.e.C.Locate(table, key)
	if r == nil {
		panic("no region")
	}
	if ri, ok := w.infos[r.Name]; ok {
		return ri
	}
	ri := region.NewInfo(r.ID, nil, []byte(r.Table), []byte(r.Name), r.Start, r.Stop)
	w.infos[r.Name] = ri
	return ri
}

func (w *rcWorld) mkCall(t, i, slot int, op *Op, parent context.Context) *rcCall {
	c := &rcCall{task: t, idx: i, slot: slot, op: op}
	c.ctx, c.cancel = context.WithCancel(parent)
	if op.Ctx.Pre {
		c.cancel()
	}
	call, err := BuildCall(c.ctx, op)
	if err != nil {
		panic(err)
	}
	call.SetRegion(w.regionFor(op.Table, op.Key))
	c.call = call
	w.calls = append(w.calls, c)
	w.byTask[[2]int{t, i}] = append(w.byTask[[2]int{t, i}], c)
	return c
}

func (w *rcWorld) wait(c *rcCall) {
	simrt.Yield("task:wait")
	var bdone <-chan struct{}
	if c.batchCtx != nil {
		// the region client may drop a batch whose queueing context ended
		bdone = c.batchCtx.Done()
	}
	select {
	case r := <-c.call.ResultChan():
		c.results = append(c.results, r)
		c.consumedStep = w.e.Step
	case <-c.ctx.Done():
	case <-bdone:
	}
	simrt.Woke("task:wait")
}

func (w *rcWorld) failed() bool {
	for _, cn := range w.e.Conns {
		if cn.IsClosed() {
			return true
		}
	}
	return w.dialed && w.dialErr != nil
}

func (w *rcWorld) runTask(t int, root context.Context) {
	for i := range w.p.Tasks[t].Ops {
		op := &w.p.Tasks[t].Ops[i]
		simrt.Yield("task:op")
		if w.e.frozen.Load() {
			return // teardown: the freed tasks run in parallel, nothing is judged any more
		}
		switch op.Kind {
		case "sleep":
			time.Sleep(ms(op.MS))
			simrt.Woke("task:sleep")
		case "batch":
			bctx, bcancel := context.WithCancel(root)
			if op.Ctx.Pre {
				bcancel()
			}
			var cs []*rcCall
			var calls []hrpc.Call
			for j := range op.Batch {
				var c *rcCall
				if op.Batch[j].Ctx.Kind == "own" {
					c = w.mkCall(t, i, j+1, &op.Batch[j], root)
				} else {
					c = w.mkCall(t, i, j+1, &op.Batch[j], bctx)
				}
				c.batchCtx = bctx
				cs = append(cs, c)
				calls = append(calls, c.call)
			}
			// the batch context is cancellable through slot 0
			w.byTask[[2]int{t, i}] = append(w.byTask[[2]int{t, i}], &rcCall{slot: 0, cancel: bcancel, ctx: bctx})
			af := w.failed()
			w.rc.QueueBatch(bctx, calls)
			for _, c := range cs {
				c.handed, c.handedStep, c.afterFail = true, w.e.Step, af
			}
			if op.MS >= 0 {
				for _, c := range cs {
					w.wait(c)
				}
			}
		default:
			c := w.mkCall(t, i, 0, op, root)
			af := w.failed()
			w.rc.QueueRPC(c.call)
			c.handed, c.handedStep, c.afterFail = true, w.e.Step, af
			if op.MS >= 0 {
				w.wait(c)
			}
		}
	}
	w.done++
}

func genC03RC(seed uint64, r *rng.Rand) *Plan {
	// the plan depends on seed/32, the failure position on seed%32 and the
	// schedule on the full seed: consecutive seeds sweep the position
	base := seed / 32
	pos := int(seed % 32)
	g := &Gen{R: rng.New(rng.Derive(base, 303))}
	p := &Plan{Profile: "c03rc", Seed: seed}
	p.Layout = Layout{Servers: 1, Tables: []TableSpec{{Name: "t", Splits: [][]byte{[]byte("g"), []byte("p")}}}}
	p.Client = ClientKnobs{QueueSize: []int{1, 2, 3, 10}[g.R.Intn(4)], FlushMS: []int{-1, 1, 5}[g.R.Intn(3)],
		ReadTimeoutMS: []int{50, 1000}[g.R.Intn(2)], Snappy: g.R.Chance(0.3)}
	p.Sched = (&Gen{R: r}).SwarmSched()
	nt := g.R.Range(1, 6)
	kinds := []string{"get", "put", "inc", "get"}
	for t := 0; t < nt; t++ {
		var ops []Op
		n := g.R.Range(1, 4)
		for i := 0; i < n; i++ {
			key := []byte{byte('a' + g.R.Intn(26))}
			if g.R.Chance(0.3) {
				b := Op{Kind: "batch"}
				nb := g.R.Range(1, 4)
				for j := 0; j < nb; j++ {
					o := g.SingleOp("t", []byte{byte('a' + g.R.Intn(26))}, kinds)
					o.SkipBatch = false
					if g.R.Chance(0.15) {
						o.Ctx = CtxSpec{Kind: "own", Pre: g.R.Chance(0.5)}
					}
					if g.R.Chance(0.03) {
						o.Kind, o.Key, o.Vals = "get", nil, nil // the multi it ends up in cannot be marshalled
					}
					b.Batch = append(b.Batch, o)
				}
				if g.R.Chance(0.1) {
					b.Ctx.Pre = true
				}
				if g.R.Chance(0.3) {
					b.MS = -1 // do not wait
				}
				ops = append(ops, b)
				continue
			}
			o := g.SingleOp("t", key, kinds)
			if g.R.Chance(0.1) {
				o.Ctx.Pre = true
			}
			if g.R.Chance(0.3) {
				o.MS = -1
			}
			if g.R.Chance(0.05) {
				// a call that cannot be marshalled (nil row): it is completed
				// with an error without anything being written
				o = Op{Kind: "get", Table: "t", Key: nil, Nonce: g.Nonce(), SkipBatch: g.R.Chance(0.5), MS: o.MS}
			}
			ops = append(ops, o)
		}
		p.Tasks = append(p.Tasks, Task{Ops: ops})
	}
	// a few cancel-later contexts
	if g.R.Chance(0.4) {
		p.Faults = append(p.Faults, &Fault{On: "step", N: g.R.Range(20, 200), Act: "cancel", Task: g.R.Intn(nt), Op: g.R.Intn(3), Slot: g.R.Intn(3)})
	}
	// the failure: kind from the base plan, position swept
	fr := rng.New(rng.Derive(seed, 304))
	switch k := g.R.Intn(10); {
	case k < 4: // k-th operation on the connection fails
		p.ConnFaults = append(p.ConnFaults, &ConnFault{Conn: 1, Op: 1 + pos*2 + fr.Intn(2), Frac: []float64{0, 0.3, 0.9}[fr.Intn(3)]})
	case k < 6: // the stream is cut after n bytes (inside length prefix, header, body, cellblock)
		p.Faults = append(p.Faults, &Fault{On: "step", N: 0, Act: "cutafter", Conn: 1, Count: 1 + pos*7 + fr.Intn(7)})
	case k < 7: // external Close at a step
		p.Faults = append(p.Faults, &Fault{On: "step", N: 5 + pos*12 + fr.Intn(12), Act: "rcclose"})
	case k < 8: // server goes silent: read timeout
		p.Faults = append(p.Faults, &Fault{On: "exec", N: pos % 12, Act: "silent", Server: 0})
	case k < 9: // server-fatal exception on some request
		p.Rules = append(p.Rules, &hb.Rule{Class: hb.FatalClasses[fr.Intn(len(hb.FatalClasses))], Count: 1, Server: -1, Level: "call", Kind: "Any", Tag: fmt.Sprint(pos)})
		p.Faults = append(p.Faults, &Fault{On: "exec", N: pos % 12, Act: "rulesOn"})
	default: // undecodable frame
		p.Faults = append(p.Faults, &Fault{On: "exec", N: pos % 12, Act: "garbage"})
	}
	return p
}

func runC03RC(p *Plan, keep bool) *Outcome { return runRC(p, keep, "c03rc") }

func runRC(p *Plan, keep bool, mode string) *Outcome {
	out := &Outcome{Profile: mode, Seed: p.Seed, Extra: map[string]int{}}
	pan := simrt.Run(p.Seed, true, func() {
		c := BuildCluster(p.Layout)
		e := NewEnv(p.Seed, c)
		e.Keep = keep
		if p.Sched.MaxSteps != 0 {
			e.Knobs = p.Sched
		}
		e.Knobs.MaxIdle = 10 * time.Minute // longer than any sleep of the workload
		for _, f := range p.ConnFaults {
			ff := *f
			e.ConnFaults = append(e.ConnFaults, &ff)
		}
		var heldRules []*hb.Rule
		for _, r := range p.Rules {
			rr := *r
			heldRules = append(heldRules, &rr)
		}
		e.Begin()
		w := &rcWorld{e: e, p: p, byTask: map[[2]int][]*rcCall{}, infos: map[string]hrpc.RegionInfo{}}
		var codec compression.Codec
		if p.Client.Snappy {
			codec = compression.New("snappy")
		}
		flush := ms(p.Client.FlushMS)
		if p.Client.FlushMS < 0 {
			flush = 0
		}
		w.rc = region.NewClient("rs0:16020", region.RegionClient, p.Client.QueueSize, flush, "sim",
			ms(p.Client.ReadTimeoutMS), codec, e.Dial, discard)
		root, stop := context.WithCancel(context.Background())
		garbageAt := -1
		var garbageConn *Conn
		var garbageT time.Duration
		for _, f := range p.Faults {
			ff := *f
			switch ff.Act {
			case "cutafter", "rcclose", "rulesOn", "garbage":
			}
			e.Faults = append(e.Faults, &ff)
		}
		e.CancelOp = func(task, op, slot int) {
			for _, c := range w.byTask[[2]int{task, op}] {
				if c.slot == slot {
					c.cancel()
				}
			}
		}
		e.ExtraAct = func(f *Fault) bool {
			switch f.Act {
			case "cutafter":
				// applies to the connection once it exists
				e.CutAfterAll = f.Count
				return true
			case "rcclose":
				simrt.Go("closer", func() { w.rc.Close() })
				e.Stats.FaultKinds["external-close"]++
				return true
			case "rulesOn":
				c.Rules = append(c.Rules, heldRules...)
				return true
			case "garbage":
				garbageAt = e.NExec
				e.Mangle = func(cn *Conn, req *hb.Request, resp []byte) []byte {
					if garbageAt >= 0 {
						garbageAt = -1
						e.Stats.FaultKinds["garbage-frame"]++
						cn.Death = append(cn.Death, "undecodable frame sent")
						garbageConn, garbageT = cn, e.Now()
						switch (p.Seed / 32) % 3 {
						case 0:
							// valid length prefix, body that is not a delimited header
							return []byte{0, 0, 0, 6, 0xff, 0xff, 0xff, 0xff, 0xff, 0x01}
						case 1:
							// a delimited header whose bytes are not a protobuf (a field
							// tag without its value)
							return []byte{0, 0, 0, 2, 0x01, 0x08}
						default:
							// the header's delimiter promises more bytes than the frame has
							return []byte{0, 0, 0, 2, 0x05, 0x08}
						}
					}
					return resp
				}
				return true
			}
			return false
		}
		// dial first, from a task of its own
		simrt.Go("dialer", func() {
			dctx, cancel := context.WithTimeout(root, 10*time.Second)
			w.dialErr = w.rc.Dial(dctx)
			w.dialed = true
			cancel()
			for t := range p.Tasks {
				t := t
				simrt.Go(fmt.Sprintf("task%d", t), func() { w.runTask(t, root) })
			}
		})
		reason := e.Loop(func() bool { return w.dialed && w.done == len(p.Tasks) })
		// quiescence: let timers (read deadline, flush) run out
		e.Knobs.MaxIdle = 2 * time.Second
		if reason == "done" || reason == "idle" {
			r2 := e.Drain(5 * time.Second)
			if r2 != "drained" && r2 != "idle" {
				reason = r2
			}
		}
		out.Reason = reason
		if mode == "c18" {
			reason = out.Reason
		}
		failedBefore := w.failed()
		// after the failure: new calls must be refused immediately (no time, no network)
		var late []*rcCall
		if mode != "c18" && failedBefore {
			e.Quiet = true
			simrt.Go("late", func() {
				op := &Op{Kind: "get", Table: "t", Key: []byte("k"), Nonce: 999001}
				c1 := w.mkCall(99, 0, 0, op, root)
				c1.afterFail = true
				w.rc.QueueRPC(c1.call)
				c1.handed = true
				op2 := &Op{Kind: "get", Table: "t", Key: []byte("k"), Nonce: 999002, SkipBatch: true}
				c2 := w.mkCall(99, 1, 0, op2, root)
				c2.afterFail = true
				w.rc.QueueRPC(c2.call)
				c2.handed = true
				op3 := &Op{Kind: "put", Table: "t", Key: []byte("k"), Nonce: 999003, Vals: map[string]map[string][]byte{"cf": {"q": []byte("x")}}}
				c3 := w.mkCall(99, 2, 0, op3, root)
				c3.afterFail = true
				w.rc.QueueBatch(root, []hrpc.Call{c3.call})
				c3.handed = true
				late = []*rcCall{c1, c2, c3}
			})
			e.Loop(func() bool { return false })
			e.Quiet = false
		}
		if mode == "c18" {
			checkC18(w, out, root, reason)
			out.Steps, out.FakeNS, out.Digest, out.NEv = e.Step, int64(e.Now()), e.Digest(), e.NEv
			out.Stats = e.Stats
			out.Trace = e.Trace
			e.frozen.Store(true)
			close(e.frozenCh)
			simrt.Free()
			stop()
			for _, cl := range w.calls {
				cl.cancel()
			}
			w.rc.Close()
			for _, cn := range e.Conns {
				cn.lock()
				if !cn.closed {
					cn.closed = true
					cn.signal()
				}
				cn.unlock()
			}
			for i := 0; i < 10; i++ {
				time.Sleep(time.Minute)
			}
			return
		}
		// ---- oracle ----
		add := func(oracle, format string, a ...any) {
			out.Violations = append(out.Violations, Violation{Prop: "C03", Oracle: oracle, Msg: fmt.Sprintf(format, a...), Step: e.Step, FakeNS: int64(e.Now())})
		}
		if n := e.MaxInstantSteps; n > 20000 {
			// the run consumed its steps at one simulated instant: some goroutine
			// of the region client loops without waiting (a reader that does not
			// give up on a dead stream keeps every outstanding call waiting)
			add("spins", "%d consecutive scheduler steps without the simulated clock advancing (run ended: %s): a goroutine of the region client loops instead of failing the connection", n, reason)
		}
		if cn := garbageConn; cn != nil && (!cn.IsClosed() || cn.ClosedAt > garbageT) {
			// no time passes in these runs while something can still be delivered
			// or run: the frame has been read, and the stream is unusable
			closed := "it is still open"
			if cn.IsClosed() {
				closed = fmt.Sprintf("it was closed only at %v", cn.ClosedAt)
			}
			add("undecodable-frame-tolerated", "an undecodable response frame was delivered on connection #%d at %v and did not fail the connection: %s (read timeout %d ms)", cn.N, garbageT, closed, p.Client.ReadTimeoutMS)
		}
		for _, v := range c.Viol {
			prop := "C03"
			if len(v) > 3 && v[0] == 'C' {
				prop = v[:3]
			}
			out.Violations = append(out.Violations, Violation{Prop: prop, Oracle: "server-observer", Msg: v, Step: e.Step})
		}
		for _, v := range simrt.Violations() {
			add(v[0], "a second completion was sent on a full result channel at %s", v[1])
		}
		bySeq := execIndex(c)
		byNonce := execsByNonce(c)
		inflight := 0
		badBatched := false // some unmarshalable call may have been batched with others
		for _, cl := range w.calls {
			if cl.op.Key == nil && cl.op.Kind == "get" && (!cl.op.SkipBatch || cl.slot > 0) {
				badBatched = true
			}
		}
		for _, cl := range w.calls {
			// drain what is left in the channel
			for {
				select {
				case r := <-cl.call.ResultChan():
					cl.results = append(cl.results, r)
					continue
				default:
				}
				break
			}
			live := cl.ctx.Err() == nil && (cl.batchCtx == nil || cl.batchCtx.Err() == nil)
			if !cl.handed {
				// QueueRPC / QueueBatch has not returned although the world has been
				// quiet for seconds (or the 20 simulated minutes of the run have
				// passed): the call is stuck in the hand-over (nobody takes it, and
				// it is not refused either)
				if live && reason != "steps" && cl.op.Nonce < 999000 {
					add("hand-over-blocked", "call nonce=%d (%s, task %d op %d): QueueRPC / QueueBatch has not returned at quiescence (run ended: %s, client failed: %v): the call is neither taken nor refused",
						cl.op.Nonce, cl.op.Kind, cl.task, cl.idx, reason, failedBefore)
				}
				continue
			}
			n := len(cl.results)
			if n > 1 {
				add("completed-twice", "call nonce=%d (%s) was completed %d times", cl.op.Nonce, cl.op.Kind, n)
			}
			if n == 0 && live && reason != "steps" {
				add("never-completed", "call nonce=%d (%s, task %d op %d slot %d, handed over at step %d, afterFail=%v) was never completed although its context is live (run ended: %s, client failed: %v)",
					cl.op.Nonce, cl.op.Kind, cl.task, cl.idx, cl.slot, cl.handedStep, cl.afterFail, reason, failedBefore)
			}
			for _, r := range cl.results {
				if r.Error != nil {
					// a request that cannot be marshalled is refused as a whole: the
					// unmarshalable call itself, and the calls batched into a multi with it
					marshal := strings.HasPrefix(r.Error.Error(), "failed to marshal request") && (cl.op.Key == nil || badBatched && !cl.op.SkipBatch)
					if _, ok := r.Error.(region.ServerError); !ok && !marshal {
						add("error-class", "call nonce=%d completed with %T (%v), not a connection-level error", cl.op.Nonce, r.Error, r.Error)
					}
					if len(byNonce[cl.op.Nonce]) == 0 {
						inflight++
					}
					continue
				}
				var s Slot
				s.Nonce, s.Kind = cl.op.Nonce, cl.op.Kind
				fillSlot(&s, r.Msg, nil)
				if msg := attributeSlot(&s, byNonce, bySeq); msg != "" {
					add("wrong-response", "%s", msg)
				}
			}
			if cl.afterFail && n == 1 && cl.results[0].Error == nil {
				add("late-accepted", "call nonce=%d handed over after the failure got a response", cl.op.Nonce)
			}
		}
		for _, cl := range late {
			if len(cl.results) != 1 {
				add("late-not-refused", "call nonce=%d handed to the failed connection was not refused immediately (%d completions without time or network)", cl.op.Nonce, len(cl.results))
			}
		}
		if failedBefore && reason != "steps" {
			for _, g := range simrt.Live() {
				if strings.HasPrefix(g.Label, "region/new.go:Dial") {
					add("goroutine-left", "goroutine %s of the failed client is still alive at %s", g.Label, g.Site)
				}
			}
		}
		out.Nontrivial = failedBefore && len(w.calls) > 0
		if failedBefore {
			out.Extra["runs_with_failure"]++
		}
		out.Extra["calls_failed_by_connection"] += inflight
		out.Steps, out.FakeNS, out.Digest, out.NEv = e.Step, int64(e.Now()), e.Digest(), e.NEv
		out.Stats = e.Stats
		out.Trace = e.Trace
		// teardown
		e.frozen.Store(true)
		close(e.frozenCh)
		simrt.Free()
		stop()
		for _, cl := range w.calls {
			cl.cancel()
		}
		w.rc.Close()
		for _, cn := range e.Conns {
			cn.lock()
			if !cn.closed {
				cn.closed = true
				cn.signal()
			}
			cn.unlock()
		}
		for i := 0; i < 10; i++ {
			time.Sleep(time.Minute)
		}
	})
	if pan != nil {
		s := fmt.Sprint(pan)
		if strings.Contains(s, "blocked goroutines remain") {
			out.Leaked = 1
		} else {
			out.Panic = s
		}
	}
	return out
}

func init() {
	register(&Profile{Name: "c03rc", Prop: "C03", Generate: genC03RC, Custom: runC03RC})
}
