package sim

import (
	"io"
	"time"

	"gosim/hb"
	"gosim/rng"
)

// C11 — malformed data from the network cannot crash the client.
// Corruption is a network fault on live connections with outstanding calls
// and on hbase:meta rows; the real reader goroutine, the dispatch to callers
// and the failure path run. A panic kills the worker and is reported with
// the seed that was running.

func genC11(seed uint64, r *rng.Rand) *Plan {
	g := &Gen{R: r}
	p := &Plan{Profile: "c11", Seed: seed}
	p.Layout = g.Layout(LayoutOpts{MaxServers: 3, MaxTables: 2, MaxRegions: 4, KeyLen: 3})
	for i := range p.Layout.Tables {
		g.PreloadRows(&p.Layout.Tables[i], g.R.Range(2, 12), 3)
	}
	p.Client = g.SwarmClient()
	p.Client.ReadTimeoutMS = []int{50, 1000}[g.R.Intn(2)]
	p.Client.Snappy = g.R.Chance(0.4)
	p.Sched = g.SwarmSched()
	p.Sched.MaxSteps = 80000
	p.Sched.MaxFake = 30 * time.Minute
	p.Scan = hb.ScanKnobs{Chunky: true, Partial: 0.3, Heartbeat: 0.1, InPB: 0.2}
	p.Permute = g.R.Chance(0.5)
	nt := g.R.Range(1, 5)
	kinds := []string{"get", "put", "inc", "app", "get", "del", "cas"}
	for t := 0; t < nt; t++ {
		var ops []Op
		n := g.R.Range(2, 7)
		for i := 0; i < n; i++ {
			ts := &p.Layout.Tables[g.R.Intn(len(p.Layout.Tables))]
			switch {
			case g.R.Chance(0.3):
				ops = append(ops, g.batchOf(ts, 6, []string{"get", "put", "inc", "app", "get"}))
			case g.R.Chance(0.25):
				ops = append(ops, g.scanOp(ts))
			case g.R.Chance(0.05):
				ops = append(ops, Op{Kind: "cache", Table: ts.Name})
			default:
				ops = append(ops, g.SingleOp(ts.Name, g.KeyNear(ts.Splits, 3), kinds))
			}
			// some callers give up while their request is outstanding: the
			// decoders then run for calls whose context has ended
			if g.R.Chance(0.2) {
				ops[len(ops)-1].Ctx = CtxSpec{Kind: "timeout", MS: g.R.Range(1, 3000)}
			}
		}
		p.Tasks = append(p.Tasks, Task{Ops: ops})
	}
	for i, nc := 0, g.R.Range(0, 3); i < nc; i++ {
		f := &Fault{Act: "cancel", Task: g.R.Intn(nt), Op: -1, On: "step", N: g.R.Range(20, 2500)}
		if g.R.Chance(0.5) {
			f.On, f.N = "deliver", g.R.Range(1, 40)
		}
		if g.R.Chance(0.4) {
			f.Slot = g.R.Range(1, 6)
		}
		p.Faults = append(p.Faults, f)
	}
	// corruption rate and budget
	p.Corrupt = []float64{0.05, 0.15, 0.4}[g.R.Intn(3)]
	p.CorruptMax = g.R.Range(1, 8)
	p.CorruptMeta = []float64{0, 0.2, 0.5}[g.R.Intn(3)]
	p.CorruptSticky = g.R.Chance(0.3)
	return p
}

func init() {
	register(&Profile{Name: "c11", Prop: "C11", Generate: genC11,
		Setup: func(w *World) {
			e := w.Env
			e.C.Corrupting = true
			r := rng.New(rng.Derive(w.Plan.Seed, 1111))
			left := w.Plan.CorruptMax
			e.Mangle = func(c *Conn, req *hb.Request, resp []byte) []byte {
				if left <= 0 || !r.Chance(w.Plan.Corrupt) {
					return resp
				}
				meta := false
				if n := len(e.C.Execs); n > 0 && e.C.Execs[n-1].ReqSeq == req.Seq && e.C.Execs[n-1].Table == "hbase:meta" {
					meta = true
				}
				out, kind, cut := hb.Mangle(r, req.Method, c.SC.Codec, meta, resp)
				if kind == "" {
					return resp
				}
				left--
				e.Stats.FaultKinds["corrupt/"+kind]++
				e.Stats.FaultsFired++
				c.Death = append(c.Death, "corrupted frame ("+kind+")")
				e.Ev("corrupt c%d call=%d %s", c.N, req.CallID, kind)
				if cut {
					c.lock()
					c.CutAfter = c.Delivered + len(c.outq) + len(out)
					c.unlock()
				}
				return out
			}
			metaLeft := w.Plan.CorruptMax
			if w.Plan.CorruptMeta > 0 {
				// sticky: once hbase:meta has answered with an older incarnation of a
				// region it keeps doing so until the corruption stops (a stale meta
				// row is a persistent condition, not a one-off)
				sticky := map[string]bool{}
				e.C.MetaCorruptFn = func(reg *hb.Region, cells []hb.Cell) []hb.Cell {
					if sticky[reg.Name] {
						out, _ := hb.CorruptMetaKind(r, cells, "region-older")
						e.Stats.FaultKinds["meta/region-older-again"]++
						return out
					}
					if metaLeft <= 0 || !r.Chance(w.Plan.CorruptMeta) {
						return cells
					}
					metaLeft--
					out, kind := hb.CorruptMeta(r, cells)
					if kind == "region-older" && w.Plan.CorruptSticky {
						sticky[reg.Name] = true
					}
					e.Stats.FaultKinds["meta/"+kind]++
					e.Stats.FaultsFired++
					return out
				}
			}
		},
		After: stabilise,
		Check: func(w *World, reason string) []Violation {
			var vs []Violation
			if w.Env.StopErr == nil {
				vs = append(vs, w.AllReturned("C11", "caller-stuck-after-corruption")...)
			}
			if n := w.Env.MaxInstantSteps; n > 40000 && !w.Env.FreeMode {
				vs = append(vs, w.viol("C11", "spin", "%d consecutive scheduler steps were taken without the simulated clock advancing: the client spins on malformed data (no wait between attempts)", n))
			} else if w.Env.Step >= w.Env.Knobs.MaxSteps-1 {
				vs = append(vs, w.viol("C11", "spin", "the run consumed its step budget (%d steps, %v simulated): the client spins on malformed data", w.Env.Step, w.Env.Now()))
			}
			return vs
		},
		Nontrivial: func(w *World) bool { return w.Env.Stats.FaultsFired > 0 },
	})
}

var _ = io.EOF
