package sim

import (
	"fmt"
	"strings"
	"time"

	"gosim/hb"
	"gosim/rng"

	"github.com/tsuna/gohbase"
	simrt "github.com/tsuna/gohbase/verifsimrt"
)

// FaultMix selects which fault kinds a generated script may contain.
type FaultMix struct {
	Cluster bool // move, split, merge, opening, metamove
	Classes bool // exception classes: retry-later, not-serving, fatal, log-closed
	Conn    bool // reset, failing connection operations, crash/restart, silent
	ZK      bool
	App     bool // application exceptions and table drop (surface to the caller)
	Max     int
}

// faultScript draws 1..mix.Max faults with progress-based triggers.
func (g *Gen) faultScript(p *Plan, mix FaultMix, horizon int) {
	n := g.R.Range(1, mix.Max)
	var kinds []string
	if mix.Cluster {
		kinds = append(kinds, "move", "split", "merge", "opening", "metamove", "move", "metahole")
	}
	if mix.Classes {
		kinds = append(kinds, "retryable", "notserving", "fatal", "logclosed", "retryable")
	}
	if mix.Conn {
		kinds = append(kinds, "reset", "connop", "crash", "silent", "reset", "abort", "stall", "dialdelay", "slow")
	}
	if mix.ZK {
		kinds = append(kinds, "zkfail")
	}
	if mix.App {
		kinds = append(kinds, "app")
	}
	for i := 0; i < n; i++ {
		ts := &p.Layout.Tables[g.R.Intn(len(p.Layout.Tables))]
		at := g.R.Range(1, horizon)
		on := "exec"
		if g.R.Chance(0.2) {
			on, at = "frames", g.R.Range(1, horizon)
		}
		f := &Fault{On: on, N: at, Table: ts.Name, Region: g.R.Intn(6), Server: g.R.Intn(p.Layout.Servers), To: g.R.Intn(p.Layout.Servers)}
		switch k := kinds[g.R.Intn(len(kinds))]; k {
		case "move", "metamove":
			f.Act = k
		case "split":
			f.Act, f.Key = "split", g.KeyNear(ts.Splits, 3)
		case "merge":
			f.Act = "merge"
		case "metahole":
			// hbase:meta has no row for one region for a while
			f.Act = "metahole"
			if g.R.Chance(0.7) {
				p.Faults = append(p.Faults, &Fault{On: "ms", N: g.R.Range(100, 30000), Act: "metaunhide"})
			}
		case "opening":
			f.Act = "opening"
			p.Faults = append(p.Faults, &Fault{On: on, N: at + g.R.Range(1, 10), Act: "openall"})
		case "retryable", "notserving", "fatal", "logclosed", "app":
			f.Act = "rule"
			r := &hb.Rule{Count: g.R.Range(1, 4), Server: -1, Level: []string{"action", "action", "region", "call"}[g.R.Intn(4)]}
			switch k {
			case "retryable":
				r.Class = hb.RetryableClasses[g.R.Intn(len(hb.RetryableClasses))]
			case "notserving":
				r.Class = hb.NotServingClasses[g.R.Intn(len(hb.NotServingClasses))]
			case "fatal":
				r.Class, r.Level, r.Count = hb.FatalClasses[g.R.Intn(len(hb.FatalClasses))], "call", 1
			case "logclosed":
				r.Class, r.Msg, r.Kind = hb.ExIOException, hb.LogClosedMsg, "Mutate"
			case "app":
				// one to three consecutive actions are refused: within one multi
				// response each caller must get the exception of its own action
				r.Class, r.Msg, r.Count = hb.AppClasses[g.R.Intn(len(hb.AppClasses))], "injected application error", []int{1, 1, 2, 3}[g.R.Intn(4)]
				r.Level = "action"
			}
			if g.R.Chance(0.3) {
				r.Kind = "Any" // also hits probes and meta scans
				if k == "app" {
					r.Kind = ""
				}
			}
			f.Rule = r
		case "reset":
			f.Act = "reset"
		case "connop":
			p.ConnFaults = append(p.ConnFaults, &ConnFault{Conn: g.R.Range(1, 4), Op: g.R.Range(2, 40), Frac: g.R.Float()})
			continue
		case "crash":
			if p.Layout.Servers < 2 {
				f.Act = "reset"
				break
			}
			f.Act = "crash"
			if g.R.Chance(0.6) {
				p.Faults = append(p.Faults, &Fault{On: on, N: at + g.R.Range(1, 15), Act: "restart", Server: f.Server})
			}
		case "silent":
			f.Act = "silent"
			p.Faults = append(p.Faults, &Fault{On: "ms", N: g.R.Range(1, 3) * p.Client.ReadTimeoutMS, Act: "unsilent", Server: f.Server})
		case "stall":
			f.Act, f.Count = "stall", []int{0, 16, 300, 5000, 100000}[g.R.Intn(5)]
			if g.R.Chance(0.7) {
				p.Faults = append(p.Faults, &Fault{On: "ms", N: g.R.Range(1, 3) * p.Client.ReadTimeoutMS, Act: "unstall", Server: f.Server})
			}
		case "slow":
			// a regionserver that takes its time over every request
			f.Act, f.Dur = "slow", []int{1, 10, 40, 400, 2000}[g.R.Intn(5)]
			if g.R.Chance(0.5) {
				f.On, f.N = "step", 1
			}
			if g.R.Chance(0.5) {
				p.Faults = append(p.Faults, &Fault{On: "ms", N: g.R.Range(100, 60000), Act: "unslow", Server: f.Server})
			}
		case "dialdelay":
			f.Act, f.Dur = "dialdelay", []int{1, 20, 500, 5000, 40000}[g.R.Intn(5)]
			if g.R.Chance(0.5) {
				f.On, f.N = "step", 1
			}
		case "abort":
			f.Act = "abort"
			f.Rule = &hb.Rule{Class: hb.FatalClasses[g.R.Intn(len(hb.FatalClasses))]}
			p.Faults = append(p.Faults, &Fault{On: on, N: at + g.R.Range(1, 6), Act: "unabort", Server: f.Server})
		case "zkfail":
			f.Act, f.Count = "zkfail", g.R.Range(1, 3)
		}
		p.Faults = append(p.Faults, f)
	}
}

func genFaulty(profile string, mix FaultMix) func(seed uint64, r *rng.Rand) *Plan {
	return func(seed uint64, r *rng.Rand) *Plan {
		g := &Gen{R: r}
		p := &Plan{Profile: profile, Seed: seed}
		p.Layout = g.Layout(LayoutOpts{MaxServers: 4, MaxTables: 2, MaxRegions: 5, KeyLen: 3})
		if p.Layout.Servers < 2 {
			p.Layout.Servers = 2
		}
		for i := range p.Layout.Tables {
			g.PreloadRows(&p.Layout.Tables[i], g.R.Range(0, 6), 3)
		}
		p.Client = g.SwarmClient()
		p.Client.ReadTimeoutMS = []int{50, 1000, 30000}[g.R.Intn(3)]
		p.Sched = g.SwarmSched()
		p.Sched.MaxSteps = 60000
		p.Sched.MaxFake = 40 * time.Minute
		p.Permute = g.R.Chance(0.5)
		nt := g.R.Range(2, 6)
		kinds := []string{"get", "put", "inc", "app", "del", "get", "cas"}
		total := 0
		for t := 0; t < nt; t++ {
			var ops []Op
			n := g.R.Range(2, 8)
			for i := 0; i < n; i++ {
				ts := &p.Layout.Tables[g.R.Intn(len(p.Layout.Tables))]
				if g.R.Chance(0.2) {
					ops = append(ops, g.batchOf(ts, 6, []string{"get", "put", "inc", "app", "del"}))
				} else {
					ops = append(ops, g.SingleOp(ts.Name, g.KeyNear(ts.Splits, 3), kinds))
				}
				total++
			}
			p.Tasks = append(p.Tasks, Task{Ops: ops})
		}
		g.faultScript(p, mix, total*3+10)
		return p
	}
}

// stabilise heals every fault and lets the workload finish within the
// liveness budget (DESIGN §6 C04: B = 30 simulated minutes).
func stabilise(w *World, reason string) {
	e := w.Env
	e.Heal()
	e.Knobs.MaxSteps = e.Step + 300000
	e.Knobs.MaxFake = e.Now() + 30*time.Minute
	e.Knobs.MaxIdle = 10 * time.Minute
	r := e.Loop(w.AllDone)
	w.StableReason = r
	if r == "done" {
		// let establishers and timers settle
		e.Knobs.MaxFake = e.Now() + 3*time.Minute
		e.Drain(2 * time.Minute)
	}
}

// errorSafety checks which errors surfaced to callers (C04).
func (w *World) errorSafety(prop string) []Violation {
	var vs []Violation
	byNonce := execsByNonce(w.Env.C)
	dropped := map[string]bool{}
	for _, f := range w.Plan.Faults {
		if f.Act == "drop" {
			dropped[f.Table] = true
		}
	}
	check := func(r *OpRec, s *Slot, op *Op, what string) {
		if s.Err == nil {
			return
		}
		switch s.ErrClass {
		case "app":
			if strings.Contains(s.ErrStr, hb.LogClosedMsg) {
				// java.io.IOException is an application exception unless it says that
				// the write-ahead log is closed: then the region is being closed,
				// the request is to be re-located and sent again
				vs = append(vs, w.viol(prop, "retryable-surfaced", "%s: the log-closed IOException (a not-serving condition) surfaced to the caller: %s", what, firstLine(s.ErrStr)))
				return
			}
			// the server must have sent exactly this exception for this nonce,
			// and nothing may have been attempted afterwards
			ex := byNonce[s.Nonce]
			last := -1
			for i, x := range ex {
				if x.Err != "" && strings.Contains(s.ErrStr, x.Err) && strings.Contains(s.ErrStr, fmt.Sprintf("seq=%d", x.Seq)) {
					last = i
				}
			}
			if strings.Contains(s.ErrStr, " nonce=0 ") {
				return // region-level exception, attributed by the C02 oracle
			}
			if last < 0 {
				vs = append(vs, w.viol(prop, "error-unchanged", "%s: error %q is not an exception the server sent for nonce %d", what, firstLine(s.ErrStr), s.Nonce))
			} else if last != len(ex)-1 {
				vs = append(vs, w.viol(prop, "app-error-retried", "%s: nonce %d was sent again after the application exception that was returned to the caller", what, s.Nonce))
			}
		case "tablenotfound":
			if !dropped[op.Table] {
				vs = append(vs, w.viol(prop, "spurious-table-not-found", "%s: TableNotFound for table %q, which always existed", what, op.Table))
			}
		case "ctx":
			if !s.CtxEnded {
				vs = append(vs, w.viol(prop, "spurious-context-error", "%s: context error although no context ended", what))
			}
		case "notexecuted":
			// legal only next to another failure in the same batch
		default:
			vs = append(vs, w.viol(prop, "retryable-surfaced", "%s: error of class %s surfaced to the caller: %s", what, s.ErrClass, firstLine(s.ErrStr)))
		}
	}
	for _, t := range w.Recs {
		for _, r := range t {
			if !r.Done {
				continue
			}
			switch r.Op.Kind {
			case "get", "put", "del", "app", "inc", "cas":
				check(r, &r.Slot, r.Op, fmt.Sprintf("task %d op %d (%s)", r.Task, r.Idx, r.Op.Kind))
			case "batch":
				for i := range r.Slots {
					check(r, &r.Slots[i], &r.Op.Batch[i], fmt.Sprintf("task %d op %d batch slot %d (%s)", r.Task, r.Idx, i, r.Slots[i].Kind))
				}
			}
		}
	}
	return vs
}

func firstLine(s string) string {
	if i := strings.IndexByte(s, '\n'); i >= 0 {
		s = s[:i]
	}
	if len(s) > 160 {
		s = s[:160]
	}
	return s
}

// quiescence checks the C09 end-state: nothing unavailable, no establisher left.
func (w *World) quiescence(prop string) []Violation {
	var vs []Violation
	if w.Client != nil {
		if st, ok := gohbase.VerifSnapshot(w.Client); ok {
			for _, r := range st.Regions {
				if r.Unavailable {
					vs = append(vs, w.viol(prop, "unavailable-at-quiescence", "cached region %q is still marked unavailable after the cluster has been stable for %v", r.Name, w.Env.Now()-w.Env.StableAt))
				}
			}
		}
	}
	for _, g := range simrt.Live() {
		if strings.Contains(g.Label, "reestablishRegion") || strings.Contains(g.Label, "establishRegion") || strings.Contains(g.Label, "go:159") {
			vs = append(vs, w.viol(prop, "establisher-left", "establisher goroutine %s is still alive at %s after the cluster has been stable for %v", g.Label, g.Site, w.Env.Now()-w.Env.StableAt))
			break
		}
	}
	return vs
}

func faultyProfile(name, prop string, mix FaultMix, check func(w *World, reason string) []Violation) *Profile {
	return &Profile{Name: name, Prop: prop, Generate: genFaulty(name, mix),
		After: stabilise,
		Setup: func(w *World) {
			w.Env.Invariant = func() error {
				if w.Env.Step%64 == 0 {
					return w.CacheInvariant()
				}
				return nil
			}
		},
		Check:      check,
		Nontrivial: func(w *World) bool { return w.Env.Stats.FaultsFired > 0 },
	}
}

func init() {
	all := FaultMix{Cluster: true, Classes: true, Conn: true, ZK: true, App: true, Max: 8}
	register(faultyProfile("c04", "C04", all, func(w *World, reason string) []Violation {
		var vs []Violation
		if w.Env.StopErr == nil {
			vs = append(vs, w.AllReturned("C04", "liveness-after-stabilisation")...)
		}
		vs = append(vs, w.errorSafety("C04")...)
		vs = append(vs, w.AttributionCheck("C04")...)
		return vs
	}))
	register(faultyProfile("c09", "C09", FaultMix{Cluster: true, Classes: true, Conn: true, Max: 8}, func(w *World, reason string) []Violation {
		var vs []Violation
		if w.Env.StopErr == nil {
			vs = append(vs, w.AllReturned("C09", "stranded-request")...)
			if w.AllDone() {
				vs = append(vs, w.quiescence("C09")...)
			}
		}
		return vs
	}))
	register(faultyProfile("c03wc", "C03", FaultMix{Conn: true, Max: 5}, func(w *World, reason string) []Violation {
		var vs []Violation
		if w.Env.StopErr == nil {
			vs = append(vs, w.AllReturned("C03", "caller-never-returned")...)
		}
		return vs
	}))
}
