// Package seam marks, for the race detector, where the code under test calls
// into the simulator. It is the only harness package compiled WITH race
// instrumentation: its frame then sits in the detector's stack between the
// frames of tsuna/gohbase and whatever the runtime reports on behalf of the
// (uninstrumented) simulator code below it - map operations, append, copy -
// so that such an access is never attributed to the gohbase function that
// made the call.
package seam

// Enter runs f.
//
//go:noinline
func Enter(f func()) { f() }
