//go:build !race

package seam

func ReadBuf(p []byte) byte { return 0 }
func WriteBuf(p []byte)     {}
