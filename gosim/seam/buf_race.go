//go:build race

package seam

// ReadBuf makes the race detector see that the caller's buffer is read now:
// what conn.Write does with the bytes it is given. The simulator's own copy of
// the bytes happens in uninstrumented code and would otherwise be invisible (a
// sender that returned its buffer to a pool before writing it would go
// unnoticed). Plain instrumented loads, one per 8-byte shadow cell, rather
// than runtime.RaceReadRange, whose reports carry no call stack.
//
//go:noinline
func ReadBuf(p []byte) byte {
	var x byte
	for i := 0; i < len(p); i += 8 {
		x ^= p[i]
	}
	if n := len(p); n > 0 {
		x ^= p[n-1]
	}
	return x
}

// WriteBuf makes the race detector see that the caller's buffer is written
// now: what conn.Read does.
//
//go:noinline
func WriteBuf(p []byte) {
	for i := 0; i < len(p); i += 8 {
		p[i] = p[i]
	}
	if n := len(p); n > 0 {
		p[n-1] = p[n-1]
	}
}
